import RucteModel.Tpl
import RucteProofs.Complete
import RucteProofs.Layout
import RucteProofs.NodeLemmas
import RucteProofs.FuelAdequate

/-!
# Lemmas for `RucteProps/C15Calls.lean`: the `@match` loop and the argument list of `@:name(…)`

Everything is stated over raw bytes.  A layout slot is abstracted by `Lay L` ("`spacelike` eats `L`
entirely whenever what follows stops layout, and `L` is empty or starts like layout"), which
`C15.spacelike_complete` provides for every admissible `printLayout l`.
-/
namespace Ructe.CallL
open Nom

/-! ## lists in lock step -/

inductive All2 {α β : Type} (R : α → β → Prop) : List α → List β → Prop
  | nil : All2 R [] []
  | cons {a b l₁ l₂} : R a b → All2 R l₁ l₂ → All2 R (a :: l₁) (b :: l₂)

theorem all2_of_index {α β γ : Type} (g : α → γ) {R : γ → β → Prop} :
    ∀ (l₁ : List α) (l₂ : List β), l₁.length = l₂.length →
      (∀ i (hi : i < l₁.length) (hi' : i < l₂.length), R (g l₁[i]) l₂[i]) → All2 R (l₁.map g) l₂
  | [], [], _, _ => .nil
  | [], _ :: _, h, _ => by simp at h
  | _ :: _, [], h, _ => by simp at h
  | a :: l₁, b :: l₂, hlen, h => by
    refine .cons (h 0 (by simp) (by simp)) ?_
    apply all2_of_index g l₁ l₂ (by simpa using hlen)
    intro i hi hi'
    exact h (i + 1) (by simpa using hi) (by simpa using hi')

theorem All2.imp {α β : Type} {R S : α → β → Prop} (h : ∀ a b, R a b → S a b) :
    ∀ {l₁ l₂}, All2 R l₁ l₂ → All2 S l₁ l₂
  | _, _, .nil => .nil
  | _, _, .cons hr ht => .cons (h _ _ hr) (ht.imp h)

/-! ## layout slots -/

/-- same as `C15.StopsLayout` -/
def Stops (rest : Bytes) : Prop :=
  (∀ b r, rest = b :: r → isSpace b = false) ∧ ¬ ∃ r, rest = 64 :: 42 :: r

/-- a piece of layout, as seen by the parser -/
structure Lay (L : Bytes) : Prop where
  skip : ∀ rest, Stops rest → spacelike (L ++ rest) = .ok rest ()
  head : L = [] ∨ (∃ b r, L = b :: r ∧ isSpace b = true) ∨ ∃ r, L = 64 :: 42 :: r

theorem stops_cons (b : UInt8) (r : Bytes) (hs : isSpace b = false) (h64 : b ≠ 64) : Stops (b :: r) := by
  refine ⟨?_, ?_⟩
  · intro b' r' h
    injection h with h1 _
    subst h1; exact hs
  · intro ⟨r', h⟩
    injection h with h1 _
    exact h64 h1

theorem stops_append (t X : Bytes) (ht : Stops t) (hne : t ≠ []) (h64 : ∀ r, t ≠ 64 :: r) : Stops (t ++ X) := by
  cases t with
  | nil => exact absurd rfl hne
  | cons c t =>
    refine ⟨?_, ?_⟩
    · intro b r h
      rw [List.cons_append] at h
      injection h with h1 _
      exact ht.1 b t (by rw [h1])
    · intro ⟨r, h⟩
      rw [List.cons_append] at h
      injection h with h1 _
      exact h64 t (by rw [h1])

/-- no expression starts with `@` (whatever the fuel) -/
theorem expression_not_at (n : Nat) (x r v : Bytes) : expression n (64 :: x) ≠ .ok r v := by
  intro h
  have hm := (mono_expression.le (Nat.le_add_right n 2)) (64 :: x) (by rw [h]; exact fun e => by cases e)
  have hh := expression_head n (64 :: x) (fun b y e => by injection e with e _; subst e; decide)
  rw [hh, h] at hm
  cases hm

theorem not_at_of_expr {n : Nat} {t tail v : Bytes} (h : expression n (t ++ tail) = .ok tail v) :
    ∀ r, t ≠ 64 :: r := by
  intro r hr
  subst hr
  exact expression_not_at n _ _ _ h

theorem lay_nil : Lay [] := by
  refine ⟨?_, .inl rfl⟩
  intro rest hr
  have h : spaceStep rest = .err [] := spaceStep_stop rest hr.1 (fun r h => hr.2 ⟨r, h⟩)
  have : many0 spaceStep rest = .ok rest [] := many0Go_err h _ []
  simp [spacelike_eq, value, pmap, this]

/-- layout in front of `X` starts like layout, or `X` is seen at once -/
theorem Lay.tail {L : Bytes} (h : Lay L) (X : Bytes) :
    L ++ X = X ∨ (∃ b r, L ++ X = b :: r ∧ isSpace b = true) ∨ ∃ r, L ++ X = 64 :: 42 :: r := by
  rcases h.head with h | ⟨b, r, h, hb⟩ | ⟨r, h⟩
  · left; rw [h]; rfl
  · right; left; exact ⟨b, r ++ X, by rw [h]; rfl, hb⟩
  · right; right; exact ⟨r ++ X, by rw [h]; rfl⟩

/-! ## small positive lemmas -/

theorem pmap_of {α β} {p : Parser α} {f : α → β} {inp r : Bytes} {a : α} (h : p inp = .ok r a) :
    pmap p f inp = .ok r (f a) := by
  simp only [pmap, h]

theorem pmap_err {α β} {p : Parser α} {f : α → β} {inp : Bytes} {e : Errs} (h : p inp = .err e) :
    pmap p f inp = .err e := by
  simp only [pmap, h]

theorem str_arrow : str "=>" = [61, 62] := by decide +kernel
theorem str_comma : str "," = [44] := by decide +kernel

theorem tagS_arrow (r : Bytes) : tagS "=>" (61 :: 62 :: r) = .ok r [61, 62] := by
  rw [tagS, str_arrow]; exact tag_append [61, 62] r

theorem tagS_comma (r : Bytes) : tagS "," (44 :: r) = .ok r [44] := by
  rw [tagS, str_comma]; exact tag_one 44 r

theorem tagS_comma_ne (b : UInt8) (r : Bytes) (h : b ≠ 44) : tagS "," (b :: r) = .err [] := by
  rw [tagS, str_comma]; exact tag_cons_ne _ _ _ _ (fun e => h e.symm)

/-! ## the dispatcher -/

theorem head_match (X : Bytes) :
    opt (preceded (char 64) Nodes.headAlt) (64 :: 109 :: 97 :: 116 :: 99 :: 104 :: 32 :: X)
      = .ok X (some [109, 97, 116, 99, 104]) := by
  simp [opt, preceded, pmap, seq, char, Nodes.headAlt, alt, orElse, tag, isPrefix, terminated]

theorem head_call (X : Bytes) :
    opt (preceded (char 64) Nodes.headAlt) (64 :: 58 :: X) = .ok X (some [58]) := by
  simp [opt, preceded, pmap, seq, char, Nodes.headAlt, alt, orElse, tag, isPrefix]

/-- one arm of `@match` -/
def armP (n : Nat) : Parser (Bytes × List TExpr) :=
  context "Error in match arm starting here:"
    (seq (delimited spacelike (expression n) spacelike)
         (preceded (terminated (tagS "=>") spacelike) (templateBlock n)))

/-- the end of the arms -/
def armEnd : Parser UInt8 := preceded spacelike (char 125)

/-- the separator of call arguments -/
def argSep : Parser Bytes := terminated (tagS ",") spacelike

theorem templateExpression_match (n : Nat) (X rest : Bytes) (ev : Bytes) (vals : List (Bytes × List TExpr))
    (he : delimited spacelike (expression n) spacelike X = .ok (123 :: rest) ev)
    (Y : Bytes) (c : UInt8)
    (hloop : manyTill (armP n) armEnd rest = .ok Y (vals, c)) :
    templateExpression (n + 1) (64 :: 109 :: 97 :: 116 :: 99 :: 104 :: 32 :: X) = .ok Y (.matchBlock ev vals) := by
  rw [templateExpression_eq, Nodes.headAlt_eq]
  simp only [pbind, head_match]
  rw [if_neg (by decide +kernel), if_neg (by decide +kernel), if_neg (by decide +kernel),
    if_neg (by decide +kernel), if_neg (by decide +kernel), if_neg (by decide +kernel),
    if_neg (by decide +kernel), if_pos (by decide +kernel)]
  refine context_ok _ (pmap_of (a := (ev, vals)) (seq_of he (preceded_of (char_cons 123 rest) ?_)))
  exact pmap_of (a := (vals, c)) hloop

theorem templateExpression_call (n : Nat) (name X Y rest : Bytes) (vals : List TArg)
    (hname : rustName X = .ok (40 :: Y) name)
    (hargs : sepList0 argSep (templateArgument n) Y = .ok (41 :: rest) vals) :
    templateExpression (n + 1) (64 :: 58 :: X) = .ok rest (.call name vals) := by
  rw [templateExpression_eq, Nodes.headAlt_eq]
  simp only [pbind, head_call]
  rw [if_pos (by decide +kernel)]
  exact pmap_of (a := (name, vals))
    (seq_of hname (delimited_of (char_cons 40 Y) hargs (char_cons 41 rest)))

/-! ## generic loops over a list of chunks -/

theorem manyTillGo_chunks {α β : Type} (f : Parser α) (g : Parser β) (fin rest : Bytes) (o : β)
    (hfin : g fin = .ok rest o) :
    ∀ {chunks : List Bytes} {vals : List α},
      All2 (fun c v => c ≠ [] ∧ ∀ R, (∃ e, g (c ++ R) = .err e) ∧ f (c ++ R) = .ok R v) chunks vals →
      ∀ fuel acc, (chunks.flatten ++ fin).length < fuel →
        manyTillGo f g fuel (chunks.flatten ++ fin) acc = .ok rest (acc.reverse ++ vals, o) := by
  intro chunks vals h
  induction h with
  | nil =>
    intro fuel acc hf
    cases fuel with
    | zero => omega
    | succ k => simp [manyTillGo, hfin]
  | @cons c v cs vs hcv _ ih =>
    intro fuel acc hf
    cases fuel with
    | zero => omega
    | succ k =>
      obtain ⟨hne, hR⟩ := hcv
      obtain ⟨⟨e, hg⟩, hfv⟩ := hR (cs.flatten ++ fin)
      have hlen : (cs.flatten ++ fin).length < (c ++ (cs.flatten ++ fin)).length := by
        cases c with
        | nil => exact absurd rfl hne
        | cons x c => simp; omega
      rw [List.flatten_cons, List.append_assoc] at hf ⊢
      have hne' : (cs.flatten ++ fin).length ≠ (c ++ (cs.flatten ++ fin)).length := by omega
      rw [manyTillGo]
      simp only [hg, hfv, hne', if_false]
      rw [ih k (v :: acc) (by omega)]
      simp

theorem manyTill_chunks {α β : Type} (f : Parser α) (g : Parser β) (fin rest : Bytes) (o : β)
    (hfin : g fin = .ok rest o) {chunks : List Bytes} {vals : List α}
    (h : All2 (fun c v => c ≠ [] ∧ ∀ R, (∃ e, g (c ++ R) = .err e) ∧ f (c ++ R) = .ok R v) chunks vals) :
    manyTill f g (chunks.flatten ++ fin) = .ok rest (vals, o) := by
  have := manyTillGo_chunks f g fin rest o hfin h _ [] (Nat.lt_succ_self _)
  simpa [manyTill] using this

/-- `P` describes what may follow an element; every chunk is a separator followed by an element -/
theorem sepLoop_chunks {α β : Type} (sep : Parser β) (p : Parser α) (P : Bytes → Prop) (fin : Bytes)
    (hP : P fin) (hstop : ∃ e, sep fin = .err e) :
    ∀ {chunks : List Bytes} {vals : List α},
      All2 (fun c v => c ≠ [] ∧ (∀ X, P (c ++ X)) ∧
        ∀ X, P X → ∃ r1 u, sep (c ++ X) = .ok r1 u ∧ p r1 = .ok X v) chunks vals →
      P (chunks.flatten ++ fin) ∧
      ∀ fuel acc, (chunks.flatten ++ fin).length < fuel →
        sepLoop sep p fuel (chunks.flatten ++ fin) acc = .ok fin (acc.reverse ++ vals) := by
  intro chunks vals h
  induction h with
  | nil =>
    refine ⟨hP, ?_⟩
    intro fuel acc hf
    obtain ⟨e, he⟩ := hstop
    cases fuel with
    | zero => omega
    | succ k => simp [sepLoop, he]
  | @cons c v cs vs hcv _ ih =>
    obtain ⟨hne, hPc, hstep⟩ := hcv
    obtain ⟨ihP, ih⟩ := ih
    rw [List.flatten_cons, List.append_assoc]
    refine ⟨hPc _, ?_⟩
    intro fuel acc hf
    cases fuel with
    | zero => omega
    | succ k =>
      obtain ⟨r1, u, hs, hp⟩ := hstep _ ihP
      have hlen : (cs.flatten ++ fin).length < (c ++ (cs.flatten ++ fin)).length := by
        cases c with
        | nil => exact absurd rfl hne
        | cons x c => simp; omega
      have hne' : (cs.flatten ++ fin).length ≠ (c ++ (cs.flatten ++ fin)).length := by omega
      rw [sepLoop]
      simp only [hs, hp, hne', if_false]
      rw [ih k (v :: acc) (by omega)]
      simp

theorem sepList0_chunks {α β : Type} (sep : Parser β) (p : Parser α) (P : Bytes → Prop) (fin : Bytes)
    (hP : P fin) (hstop : ∃ e, sep fin = .err e) (c0 : Bytes) (v0 : α)
    (h0 : ∀ X, P X → p (c0 ++ X) = .ok X v0)
    {chunks : List Bytes} {vals : List α}
    (h : All2 (fun c v => c ≠ [] ∧ (∀ X, P (c ++ X)) ∧
        ∀ X, P X → ∃ r1 u, sep (c ++ X) = .ok r1 u ∧ p r1 = .ok X v) chunks vals) :
    sepList0 sep p (c0 ++ (chunks.flatten ++ fin)) = .ok fin (v0 :: vals) := by
  obtain ⟨hPc, hloop⟩ := sepLoop_chunks sep p P fin hP hstop h
  simp only [sepList0, h0 _ hPc]
  rw [hloop _ [v0] (Nat.lt_succ_self _)]
  simp

theorem sepList0_none {α β : Type} (sep : Parser β) (p : Parser α) (fin : Bytes) {e : Errs}
    (h : p fin = .err e) : sepList0 sep p fin = .ok fin [] := by
  simp only [sepList0, h]

/-! ## one match arm -/

/-- what a pattern may be followed by -/
def PatTail (tail : Bytes) : Prop :=
  (∃ b r, tail = b :: r ∧ isSpace b = true) ∨ (∃ r, tail = 64 :: 42 :: r) ∨ (∃ r, tail = 61 :: 62 :: r)

theorem arm_step (n : Nat) (L1 pat L2 L3 body patv : Bytes) (nodes : List TExpr)
    (hL1 : Lay L1) (hL2 : Lay L2) (hL3 : Lay L3)
    (hstops : Stops pat) (hnc : ∀ r, pat ≠ 125 :: r) (hne : pat ≠ [])
    (hpat : ∀ tail, PatTail tail → expression n (pat ++ tail) = .ok tail patv)
    (hbody : ∀ r, templateBlock n (123 :: (body ++ 125 :: r)) = .ok r nodes) (R : Bytes) :
    (∃ e, armEnd (L1 ++ (pat ++ (L2 ++ 61 :: 62 :: (L3 ++ 123 :: (body ++ 125 :: R))))) = .err e) ∧
    armP n (L1 ++ (pat ++ (L2 ++ 61 :: 62 :: (L3 ++ 123 :: (body ++ 125 :: R))))) = .ok R (patv, nodes) := by
  have hs1 := hL1.skip _ (stops_append pat (L2 ++ 61 :: 62 :: (L3 ++ 123 :: (body ++ 125 :: R))) hstops hne
    (not_at_of_expr (hpat [61, 62] (.inr (.inr ⟨[], rfl⟩)))))
  constructor
  · refine ⟨_, preceded_err_right hs1 (char_ne 125 _ ?_)⟩
    intro x hx
    cases pat with
    | nil => exact absurd rfl hne
    | cons c pat =>
      rw [List.cons_append] at hx
      injection hx with h1 _
      exact hnc pat (by rw [h1])
  · have htail : PatTail (L2 ++ 61 :: 62 :: (L3 ++ 123 :: (body ++ 125 :: R))) := by
      rcases hL2.tail (61 :: 62 :: (L3 ++ 123 :: (body ++ 125 :: R))) with h | h | h
      · right; right; exact ⟨_, h⟩
      · left; exact h
      · right; left; exact h
    have hs2 := hL2.skip (61 :: 62 :: (L3 ++ 123 :: (body ++ 125 :: R))) (stops_cons _ _ (by decide) (by decide))
    have hs3 := hL3.skip (123 :: (body ++ 125 :: R)) (stops_cons _ _ (by decide) (by decide))
    exact context_ok _ (seq_of (delimited_of hs1 (hpat _ htail) hs2)
      (preceded_of (terminated_of (tagS_arrow _) hs3) (hbody R)))

theorem armEnd_ok (L rest : Bytes) (hL : Lay L) : armEnd (L ++ 125 :: rest) = .ok rest 125 :=
  preceded_of (hL.skip (125 :: rest) (stops_cons _ _ (by decide) (by decide))) (char_cons 125 rest)

/-- the head of `@match`: the scrutinee between layout, up to the opening brace -/
theorem match_head (n : Nat) (L0 e L1 ev X : Bytes) (hL0 : Lay L0) (hL1 : Lay L1) (hne : L1 ≠ [])
    (hes : Stops e)
    (he : ∀ tail, ((∃ b r, tail = b :: r ∧ isSpace b = true) ∨ (∃ r, tail = 64 :: 42 :: r)) →
      expression n (e ++ tail) = .ok tail ev) :
    delimited spacelike (expression n) spacelike (L0 ++ (e ++ (L1 ++ 123 :: X))) = .ok (123 :: X) ev := by
  have hene : e ≠ [] := by
    intro h
    subst h
    have := he [32] (.inl ⟨32, [], rfl, by decide⟩)
    have := consumes_expression n _ _ _ this
    simp at this
  have htail : (∃ b r, L1 ++ 123 :: X = b :: r ∧ isSpace b = true) ∨ (∃ r, L1 ++ 123 :: X = 64 :: 42 :: r) := by
    rcases hL1.head with h | ⟨b, r, h, hb⟩ | ⟨r, h⟩
    · exact absurd h hne
    · left; exact ⟨b, r ++ 123 :: X, by rw [h]; rfl, hb⟩
    · right; exact ⟨r ++ 123 :: X, by rw [h]; rfl⟩
  exact delimited_of (hL0.skip _ (stops_append e _ hes hene
    (not_at_of_expr (he [32] (.inl ⟨32, [], rfl, by decide⟩))))) (he _ htail)
    (hL1.skip (123 :: X) (stops_cons _ _ (by decide) (by decide)))

/-! ## one call argument -/

/-- what an argument may be followed by -/
def ArgTail (tail : Bytes) : Prop := (∃ r, tail = 44 :: r) ∨ (∃ r, tail = 41 :: r)

theorem stops_argTail {X : Bytes} (h : ArgTail X) : Stops X := by
  rcases h with ⟨r, rfl⟩ | ⟨r, rfl⟩ <;> exact stops_cons _ _ (by decide) (by decide)

/-- the text `A` is one argument with value `v` -/
structure ArgParses (n : Nat) (A : Bytes) (v : TArg) : Prop where
  nonempty : A ≠ []
  stops : ∀ X, Stops (A ++ X)
  parses : ∀ X, ArgTail X → templateArgument (n + 1) (A ++ X) = .ok X v

theorem arg_rust (n : Nat) (t tv : Bytes) (hne : t ≠ []) (hnb : ∀ r, t ≠ 123 :: r) (hst : Stops t)
    (ht : ∀ tail, ArgTail tail → expression n (t ++ tail) = .ok tail tv) :
    ArgParses n t (.rust tv) := by
  refine ⟨hne, fun X => stops_append t X hst hne (not_at_of_expr (ht [41] (.inr ⟨[], rfl⟩))), ?_⟩
  intro X hX
  have h1 : char 123 (t ++ X) = .err [⟨(t ++ X).length, .chr 123⟩] := by
    apply char_ne
    intro x hx
    cases t with
    | nil => exact absurd rfl hne
    | cons c t =>
      rw [List.cons_append] at hx
      injection hx with h1 _
      exact hnb t (by rw [h1])
  rw [templateArgument]
  rw [alt_cons_err (pmap_err (delimited_err_left h1)), alt_one]
  exact pmap_of (ht X hX)

theorem arg_block (n : Nat) (b L : Bytes) (nodes : List TExpr) (hL : Lay L)
    (hb : ∀ r, many0 (templateExpression n) (b ++ 125 :: r) = .ok (125 :: r) nodes) :
    ArgParses n (123 :: (b ++ 125 :: L)) (.body nodes) := by
  refine ⟨by simp, fun X => stops_cons _ _ (by decide) (by decide), ?_⟩
  intro X hX
  have e : 123 :: (b ++ 125 :: L) ++ X = 123 :: (b ++ 125 :: (L ++ X)) := by simp
  rw [e, templateArgument]
  apply alt_cons_ok
  exact pmap_of (delimited_of (char_cons 123 _) (hb (L ++ X))
    (terminated_of (char_cons 125 _) (hL.skip X (stops_argTail hX))))

theorem argSep_ok (L Y : Bytes) (hL : Lay L) (hY : Stops Y) : argSep (44 :: (L ++ Y)) = .ok Y [44] :=
  terminated_of (tagS_comma _) (hL.skip Y hY)

theorem argSep_stop (r : Bytes) : argSep (41 :: r) = .err [] :=
  terminated_err_left (tagS_comma_ne 41 r (by decide))

/-- `)` is not an argument (needs fuel for `expression` to get as far as failing) -/
theorem arg_close (m : Nat) (r : Bytes) : ∃ e, templateArgument (m + 3) (41 :: r) = .err e := by
  have h1 : char 123 (41 :: r) = .err [⟨(41 :: r).length, .chr 123⟩] :=
    char_ne _ _ (fun x hx => by injection hx with h _; exact absurd h (by decide))
  have h2 := expression_head m (41 :: r) (fun b x hx => by
    injection hx with h _; subst h; decide)
  have : templateArgument (m + 3) (41 :: r) = .err [⟨(41 :: r).length, .ctx "Expected rust expression"⟩] := by
    rw [templateArgument, alt_cons_err (pmap_err (delimited_err_left h1)), alt_one]
    exact pmap_err h2
  exact ⟨_, this⟩

/-- a chunk of the argument loop: `,` layout argument -/
theorem arg_chunk (n : Nat) (L A : Bytes) (v : TArg) (hL : Lay L) (hA : ArgParses n A v) :
    44 :: (L ++ A) ≠ [] ∧ (∀ X, ArgTail (44 :: (L ++ A) ++ X)) ∧
      ∀ X, ArgTail X → ∃ r1 u, argSep (44 :: (L ++ A) ++ X) = .ok r1 u ∧
        templateArgument (n + 1) r1 = .ok X v := by
  refine ⟨by simp, fun X => .inl ⟨_, rfl⟩, ?_⟩
  intro X hX
  refine ⟨A ++ X, [44], ?_, hA.parses X hX⟩
  have e : 44 :: (L ++ A) ++ X = 44 :: (L ++ (A ++ X)) := by simp
  rw [e]
  exact argSep_ok L _ hL (hA.stops X)

/-- **non-empty argument list** -/
theorem call_args (n : Nat) (A0 : Bytes) (v0 : TArg) (h0 : ArgParses n A0 v0) (rest : Bytes)
    {chunks : List Bytes} {vals : List TArg}
    (h : All2 (fun c v => ∃ L A, c = 44 :: (L ++ A) ∧ Lay L ∧ ArgParses n A v) chunks vals) :
    sepList0 argSep (templateArgument (n + 1)) (A0 ++ (chunks.flatten ++ 41 :: rest))
      = .ok (41 :: rest) (v0 :: vals) := by
  apply sepList0_chunks argSep (templateArgument (n + 1)) ArgTail (41 :: rest) (.inr ⟨_, rfl⟩)
    ⟨_, argSep_stop rest⟩ A0 v0 h0.parses
  refine h.imp ?_
  rintro c v ⟨L, A, rfl, hL, hA⟩
  exact arg_chunk n L A v hL hA

end Ructe.CallL
