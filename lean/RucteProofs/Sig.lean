import RucteModel.Emit

/-! Lemma library for the signature printing (`C13`): `stripSuffix`, `lastNonWs`, `printParam`. -/
namespace Ructe
open Nom

theorem contentType_eq : contentType = [67, 111, 110, 116, 101, 110, 116] := by decide +kernel

theorem contentType_length : contentType.length = 7 := by
  rw [contentType_eq]; rfl

theorem stripSuffix_append (suf head : Bytes) : stripSuffix suf (head ++ suf) = some head := by
  simp [stripSuffix]

theorem eq_append_of_stripSuffix {suf a head : Bytes} (h : stripSuffix suf a = some head) :
    a = head ++ suf := by
  unfold stripSuffix at h
  split at h
  · next hc =>
    cases h
    conv => lhs; rw [← List.take_append_drop (a.length - suf.length) a]
    rw [hc.2]
  · cases h

theorem stripSuffix_eq_none_of_ne {suf a : Bytes} (h : ∀ head, a ≠ head ++ suf) :
    stripSuffix suf a = none := by
  cases hs : stripSuffix suf a with
  | none => rfl
  | some head => exact absurd (eq_append_of_stripSuffix hs) (h head)

theorem dropWhile_isWs_append {ws : Bytes} (h : ws.all isWs = true) (r : Bytes) :
    (ws ++ r).dropWhile isWs = r.dropWhile isWs := by
  induction ws with
  | nil => rfl
  | cons c t ih =>
    simp only [List.all_cons, Bool.and_eq_true] at h
    simp [h.1, ih h.2]

theorem all_reverse_isWs {ws : Bytes} (h : ws.all isWs = true) : ws.reverse.all isWs = true := by
  simpa using h

/-- trailing white space is invisible to `lastNonWs` -/
theorem lastNonWs_append_ws (x : Bytes) {ws : Bytes} (h : ws.all isWs = true) :
    lastNonWs (x ++ ws) = lastNonWs x := by
  unfold lastNonWs
  rw [List.reverse_append, dropWhile_isWs_append (all_reverse_isWs h)]

theorem lastNonWs_concat (x : Bytes) (c : UInt8) (hc : isWs c = false) :
    lastNonWs (x ++ [c]) = some c := by
  unfold lastNonWs
  simp [hc]

theorem lastNonWs_concat_ws (x : Bytes) (c : UInt8) {ws : Bytes} (hc : isWs c = false)
    (h : ws.all isWs = true) : lastNonWs (x ++ [c] ++ ws) = some c := by
  rw [lastNonWs_append_ws _ h, lastNonWs_concat _ _ hc]

theorem isWs_colon : isWs 58 = false := by decide

theorem printParam_append_content (head : Bytes) :
    printParam (head ++ contentType) =
      if lastNonWs head = some 58 then head ++ contentImpl else head ++ contentType := by
  unfold printParam
  rw [stripSuffix_append]

end Ructe
