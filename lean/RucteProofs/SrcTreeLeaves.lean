import RucteProofs.SrcTree
import RucteProofs.DirectiveLemmas
import RucteProofs.CallLemmas
import RucteProps.C15Directives
import RucteProps.C15Calls

/-!
# Per-construct completeness lemmas for source trees (`RucteProofs/SrcTree.lean`)

Everything here is stated over raw bytes with the *specific* remainder of the input (no `∀ rest`
hypotheses on block bodies), so that the induction over a source tree can supply the body of each
block with the exact text that follows it.
-/
namespace Ructe.Src
open Nom Ructe.C15 Ructe.Nodes

/-! ## small facts about the Boolean side conditions -/

theorem textEndB_spec {follow : Bytes} (h : textEndB follow = true) :
    follow = [] ∨ ∃ b r, follow = b :: r ∧ (b = 64 ∨ b = 123 ∨ b = 125) := by
  cases follow with
  | nil => exact .inl rfl
  | cons b r =>
    refine .inr ⟨b, r, rfl, ?_⟩
    simpa [textEndB, or_assoc] using h

theorem noKeywordB_spec {inp : Bytes} (h : noKeywordB inp = true) :
    (∀ t, inp ≠ 105 :: 102 :: 32 :: t) ∧ (∀ t, inp ≠ 102 :: 111 :: 114 :: 32 :: t) ∧
    (∀ t, inp ≠ 109 :: 97 :: 116 :: 99 :: 104 :: 32 :: t) := by
  refine ⟨?_, ?_, ?_⟩ <;> (intro t e; subst e; simp [noKeywordB] at h)

/-- `tag` either succeeds with the tag or fails with no entry -/
theorem tag_res (t inp : Bytes) : (∃ r, tag t inp = .ok r t ∧ inp = t ++ r) ∨ tag t inp = .err [] := by
  unfold tag
  cases h : isPrefix t inp with
  | none => exact .inr rfl
  | some r => exact .inl ⟨r, rfl, isPrefix_some h⟩

/-- the keyword alternative of the dispatcher fails unless the input starts with `if `, `for `, `match ` -/
theorem keyword_err {inp : Bytes} (h : noKeywordB inp = true) :
    terminated (alt [tag [105, 102], tag [102, 111, 114], tag [109, 97, 116, 99, 104]]) (tag [32]) inp = .err [] := by
  obtain ⟨h1, h2, h3⟩ := noKeywordB_spec h
  have sp : ∀ (k r : Bytes), inp = k ++ r → (∀ t, inp ≠ k ++ 32 :: t) → tag [32] r = .err [] := by
    intro k r e hk
    apply tag_ne
    intro x hx
    exact hk x (by rw [e, hx])
  rcases tag_res [105, 102] inp with ⟨r, hr, e⟩ | hA
  · exact terminated_err_right (alt_cons_ok hr) (sp _ r e (fun t => by simpa using h1 t))
  rcases tag_res [102, 111, 114] inp with ⟨r, hr, e⟩ | hB
  · exact terminated_err_right (by rw [alt_cons_err hA]; exact alt_cons_ok hr) (sp _ r e (fun t => by simpa using h2 t))
  rcases tag_res [109, 97, 116, 99, 104] inp with ⟨r, hr, e⟩ | hC
  · exact terminated_err_right (by rw [alt_cons_err hA, alt_cons_err hB]; exact hr) (sp _ r e (fun t => by simpa using h3 t))
  · exact terminated_err_left (by rw [alt_cons_err hA, alt_cons_err hB]; exact hC)

/-! ## the dispatcher after `@` -/

theorem head_comment (X : Bytes) : opt (preceded (char 64) headAlt) (64 :: 42 :: X) = .ok X (some [42]) := by
  simp [opt, preceded, pmap, seq, char, headAlt, alt, orElse, tag, isPrefix]

theorem head_paren (X : Bytes) : opt (preceded (char 64) headAlt) (64 :: 40 :: X) = .ok X (some [40]) := by
  simp [opt, preceded, pmap, seq, char, headAlt, alt, orElse, tag, isPrefix]

theorem dispatchB_spec {b : UInt8} {X : Bytes} (h : dispatchB (b :: X) = true) :
    (b ≠ 42 ∧ b ≠ 58 ∧ b ≠ 64 ∧ b ≠ 123 ∧ b ≠ 125 ∧ b ≠ 40) ∧ noKeywordB (b :: X) = true := by
  unfold dispatchB at h
  split at h
  · exact absurd h (by decide)
  · exact absurd h (by decide)
  · exact absurd h (by decide)
  · exact absurd h (by decide)
  · exact absurd h (by decide)
  · exact absurd h (by decide)
  · next h1 h2 h3 h4 h5 h6 =>
    exact ⟨⟨fun e => h1 X (by rw [e]), fun e => h2 X (by rw [e]), fun e => h3 X (by rw [e]),
      fun e => h4 X (by rw [e]), fun e => h5 X (by rw [e]), fun e => h6 X (by rw [e])⟩, h⟩

/-- `@` followed by text that no earlier arm of the dispatcher takes: the dispatcher consumes the `@` only -/
theorem head_expr (b : UInt8) (X : Bytes) (hd : dispatchB (b :: X) = true) :
    opt (preceded (char 64) headAlt) (64 :: b :: X) = .ok (b :: X) (some []) := by
  obtain ⟨⟨n1, n2, n3, n4, n5, n6⟩, hk⟩ := dispatchB_spec hd
  have hkw := keyword_err hk
  have hlast : value ([] : Bytes) (tag []) (b :: X) = .ok (b :: X) [] := value_of _ (tag_nil _)
  have : headAlt (b :: X) = .ok (b :: X) [] := by
    unfold headAlt
    rw [alt_cons_err (tag_cons_ne _ _ _ _ (Ne.symm n1)), alt_cons_err (tag_cons_ne _ _ _ _ (Ne.symm n2)),
      alt_cons_err (tag_cons_ne _ _ _ _ (Ne.symm n3)), alt_cons_err (tag_cons_ne _ _ _ _ (Ne.symm n4)),
      alt_cons_err (tag_cons_ne _ _ _ _ (Ne.symm n5)), alt_cons_err (tag_cons_ne _ _ _ _ (Ne.symm n6)),
      alt_cons_err hkw]
    exact hlast
  exact opt_of (preceded_of (char_cons 64 _) this)

/-- `dispatchB` is exact: the dispatcher returns the empty keyword (and so hands the text after `@` to
`expression`) **iff** `dispatchB` holds -/
theorem head_expr_iff (b : UInt8) (X : Bytes) :
    opt (preceded (char 64) headAlt) (64 :: b :: X) = .ok (b :: X) (some []) ↔ dispatchB (b :: X) = true := by
  refine ⟨fun h => ?_, head_expr b X⟩
  cases hd : dispatchB (b :: X) with
  | true => rfl
  | false =>
    exfalso
    unfold dispatchB at hd
    split at hd
    all_goals first
      | (rename_i heq; obtain ⟨rfl, rfl⟩ := List.cons.inj heq
         simp [opt, preceded, pmap, seq, char, headAlt, alt, orElse, tag, isPrefix] at h; done)
      | skip
    unfold noKeywordB at hd
    split at hd
    all_goals first
      | (rename_i heq; obtain ⟨rfl, rfl⟩ := List.cons.inj heq
         simp [opt, preceded, pmap, seq, char, headAlt, alt, orElse, tag, isPrefix, terminated] at h; done)
      | skip
    exact absurd hd (by decide)

/-! ## leaves -/

/-- **comment node** -/
theorem comment_node_complete (n : Nat) (body rest : Bytes) (h : noStarAt (body ++ [42]) = true) :
    templateExpression (n + 1) (64 :: 42 :: (body ++ 42 :: 64 :: rest)) = .ok rest .comment := by
  rw [templateExpression_eq, headAlt_eq]
  simp only [pbind, head_comment]
  rw [if_neg (by decide +kernel), if_neg (by decide +kernel), if_neg (by decide +kernel),
    if_neg (by decide +kernel), if_pos (by decide +kernel)]
  exact CallL.pmap_of (commentTail_complete body rest h)

/-- after `@`, text that no earlier arm of the dispatcher takes is handed to `expression` -/
theorem templateExpression_expr (n : Nat) (b : UInt8) (X : Bytes) (hd : dispatchB (b :: X) = true) :
    templateExpression (n + 1) (64 :: b :: X) = pmap (expression n) TExpr.expr (b :: X) := by
  rw [templateExpression_eq, headAlt_eq]
  simp only [pbind, head_expr b X hd]
  rw [if_neg (by decide +kernel), if_neg (by decide +kernel), if_neg (by decide +kernel),
    if_neg (by decide +kernel), if_neg (by decide +kernel), if_neg (by decide +kernel),
    if_neg (by decide +kernel), if_neg (by decide +kernel), if_neg (by decide +kernel)]

/-- **`@expression`**: any documented expression -/
theorem expr_node_complete (n : Nat) (e : C05.DExpr) (rest : Bytes) (hw : e.wf = true)
    (hd : dispatchB (e.print ++ rest) = true) (hf : e.follows rest = true) (hs : C05.Stops rest) (hn : e.fuel ≤ n) :
    templateExpression (n + 1) (64 :: e.print ++ rest) = .ok rest (.expr e.print) := by
  obtain ⟨b, x, hbx, _⟩ := dexpr_head e hw
  have e1 : 64 :: e.print ++ rest = 64 :: b :: (x ++ rest) := by simp [hbx]
  have e2 : e.print ++ rest = b :: (x ++ rest) := by simp [hbx]
  rw [e1, templateExpression_expr n b _ (by rw [← e2]; exact hd), ← e2]
  exact CallL.pmap_of (C05.expression_complete e rest hw hs hf n hn)

theorem str_rp : str ")" = [41] := by decide +kernel

/-- **`@(group)`** -/
theorem paren_node_complete (n : Nat) (g : List C05.Grp) (rest : Bytes) (hg : GroupOk g)
    (hn : 2 * C05.Grp.depthL g + 2 ≤ n) :
    templateExpression (n + 1) ([64, 40] ++ C05.Grp.printL g ++ [41] ++ rest)
      = .ok rest (.expr ([40] ++ C05.Grp.printL g ++ [41])) := by
  have e : [64, 40] ++ C05.Grp.printL g ++ [41] ++ rest = 64 :: 40 :: (C05.Grp.printL g ++ [41] ++ rest) := by simp
  rw [e, templateExpression_eq, headAlt_eq]
  simp only [pbind, head_paren]
  rw [if_neg (by decide +kernel), if_neg (by decide +kernel), if_neg (by decide +kernel),
    if_neg (by decide +kernel), if_neg (by decide +kernel), if_neg (by decide +kernel),
    if_neg (by decide +kernel), if_neg (by decide +kernel), if_pos (by decide +kernel)]
  have h1 := C05.exprInsideParens_complete g hg.1 hg.2 rest n (by omega)
  have h2 : tagS ")" ([41] ++ rest) = .ok rest [41] := by rw [tagS, str_rp]; exact tag_append _ _
  have := CallL.pmap_of (f := fun e => TExpr.expr (str "(" ++ e ++ str ")")) (terminated_of h1 h2)
  rw [this, str_lp, str_rp]

/-! ## `@if` chains -/

/-- `if2` on L1 cond L2 `{` body `}` + whatever the `else` part gives -/
theorem if2_cond (m : Nat) (l₁ l₂ : Layout) (h₁ : LayoutOk l₁) (h₂ : LayoutOk l₂) (hne : l₂ ≠ [])
    (c : Cond) (hc : c.wf = true) (hm : c.fuel ≤ m) (bodyB R rest : Bytes) (nodes : List TExpr)
    (els : Option (List TExpr))
    (hbody : templateBlock m (123 :: (bodyB ++ 125 :: R)) = .ok R nodes)
    (he : opt (preceded (delimited spacelike (tagS "else") spacelike)
            (alt [preceded (tagS "if") (pmap (if2 m) (fun e => [e])), templateBlock m])) R = .ok rest els) :
    if2 (m + 1) (printLayout l₁ ++ (c.print ++ (printLayout l₂ ++ 123 :: (bodyB ++ 125 :: R))))
      = .ok rest (.ifBlock c.value nodes els) :=
  if2_of_parts m
    (spacelike_complete l₁ h₁ _ ((Cond.fragHead c hc).stops _))
    (Cond.complete c hc m hm l₂ _ h₂ hne)
    (spacelike_complete l₂ h₂ _ (stopsLayout_cons 123 _ (by decide) (by decide))) hbody he

/-- no `else` branch follows -/
theorem noElse_opt (n : Nat) (follow : Bytes) (h : noElseB follow = true) :
    opt (preceded (delimited spacelike (tagS "else") spacelike)
      (alt [preceded (tagS "if") (pmap (if2 (n + 1)) (fun e => [e])), templateBlock (n + 1)])) follow = .ok follow none := by
  obtain ⟨r, hr⟩ := spacelike_total follow
  simp only [noElseB, hr] at h
  cases hp : isPrefix [101, 108, 115, 101] r with
  | none =>
    have ht : tagS "else" r = .err [] := by
      rw [tagS, str_else]; unfold tag; rw [hp]
    exact opt_err (preceded_err_left (delimited_err_mid hr ht))
  | some r' =>
    have ht : tagS "else" r = .ok r' [101, 108, 115, 101] := by
      rw [tagS, str_else]; unfold tag; rw [hp]
    obtain ⟨r'', hr''⟩ := spacelike_total r'
    rw [hp] at h
    simp only [hr''] at h
    have h123 : ∀ x, r'' ≠ 123 :: x := by
      intro x e; subst e; simp at h
    have hif : ∀ x, r'' ≠ 105 :: 102 :: x := by
      intro x e; subst e; simp at h
    have h1 : tagS "if" r'' = .err [] := by
      rw [tagS, str_if]
      rcases tag_res [105, 102] r'' with ⟨x, _, e⟩ | h
      · exact absurd e (hif x)
      · exact h
    have h2 : templateBlock (n + 1) r'' = .err [⟨r''.length, .chr 123⟩] := by
      rw [templateBlock]
      exact preceded_err_left (char_ne 123 _ h123)
    have halt : alt [preceded (tagS "if") (pmap (if2 (n + 1)) (fun e => [e])), templateBlock (n + 1)] r'' =
        .err [⟨r''.length, .chr 123⟩] := by
      rw [alt_cons_err (preceded_err_left h1)]; exact h2
    exact opt_err (preceded_err_right (delimited_of hr ht hr'') halt)

/-- the `else if …` tail from the results of its parts -/
theorem elif_of_parts (n : Nat) {inp r1 x rest : Bytes} {e : TExpr}
    (hs1 : spacelike inp = .ok ([101, 108, 115, 101] ++ r1) ())
    (hs2 : spacelike r1 = .ok (105 :: 102 :: x) ())
    (hi : if2 n x = .ok rest e) :
    opt (preceded (delimited spacelike (tagS "else") spacelike)
      (alt [preceded (tagS "if") (pmap (if2 n) (fun e => [e])), templateBlock n])) inp =
      .ok rest (some [e]) := by
  have ht : tagS "else" ([101, 108, 115, 101] ++ r1) = .ok r1 [101, 108, 115, 101] := by
    rw [tagS, str_else]; exact tag_append _ _
  have hif : tagS "if" (105 :: 102 :: x) = .ok x [105, 102] := by
    rw [tagS, str_if]; exact tag_append [105, 102] x
  have halt : alt [preceded (tagS "if") (pmap (if2 n) (fun e => [e])), templateBlock n] (105 :: 102 :: x) =
      .ok rest [e] := alt_cons_ok (preceded_of hif (CallL.pmap_of hi))
  exact opt_of (preceded_of (delimited_of hs1 ht hs2) halt)

end Ructe.Src
