import RucteProofs.SrcTree
import RucteProofs.DirectiveLemmas
import RucteProofs.CallLemmas
import RucteProps.C15Directives
import RucteProps.C15Calls

/-!
# Per-construct completeness lemmas for source trees (`RucteProofs/SrcTree.lean`)

Everything here is stated over raw bytes with the *specific* remainder of the input (no `∀ rest`
hypotheses on block bodies), so that the induction over a source tree can supply the body of each
block with the exact text that follows it.
-/
namespace Ructe.Src
open Nom Ructe.C15 Ructe.Nodes

/-! ## small facts about the Boolean side conditions -/

theorem textEndB_spec {follow : Bytes} (h : textEndB follow = true) :
    follow = [] ∨ ∃ b r, follow = b :: r ∧ (b = 64 ∨ b = 123 ∨ b = 125) := by
  cases follow with
  | nil => exact .inl rfl
  | cons b r =>
    refine .inr ⟨b, r, rfl, ?_⟩
    simpa [textEndB, or_assoc] using h

theorem nameEndB_spec {follow : Bytes} (h : nameEndB follow = true) :
    ∀ c r, follow = c :: r → C05.isNameChar c = false := by
  intro c r e
  subst e
  simpa [nameEndB] using h

theorem noKeywordB_spec {inp : Bytes} (h : noKeywordB inp = true) :
    (∀ t, inp ≠ 105 :: 102 :: 32 :: t) ∧ (∀ t, inp ≠ 102 :: 111 :: 114 :: 32 :: t) ∧
    (∀ t, inp ≠ 109 :: 97 :: 116 :: 99 :: 104 :: 32 :: t) := by
  refine ⟨?_, ?_, ?_⟩ <;> (intro t e; subst e; simp [noKeywordB] at h)

/-- `tag` either succeeds with the tag or fails with no entry -/
theorem tag_res (t inp : Bytes) : (∃ r, tag t inp = .ok r t ∧ inp = t ++ r) ∨ tag t inp = .err [] := by
  unfold tag
  cases h : isPrefix t inp with
  | none => exact .inr rfl
  | some r => exact .inl ⟨r, rfl, isPrefix_some h⟩

/-- the keyword alternative of the dispatcher fails unless the input starts with `if `, `for `, `match ` -/
theorem keyword_err {inp : Bytes} (h : noKeywordB inp = true) :
    terminated (alt [tag [105, 102], tag [102, 111, 114], tag [109, 97, 116, 99, 104]]) (tag [32]) inp = .err [] := by
  obtain ⟨h1, h2, h3⟩ := noKeywordB_spec h
  have sp : ∀ (k r : Bytes), inp = k ++ r → (∀ t, inp ≠ k ++ 32 :: t) → tag [32] r = .err [] := by
    intro k r e hk
    apply tag_ne
    intro x hx
    exact hk x (by rw [e, hx])
  rcases tag_res [105, 102] inp with ⟨r, hr, e⟩ | hA
  · exact terminated_err_right (alt_cons_ok hr) (sp _ r e (fun t => by simpa using h1 t))
  rcases tag_res [102, 111, 114] inp with ⟨r, hr, e⟩ | hB
  · exact terminated_err_right (by rw [alt_cons_err hA]; exact alt_cons_ok hr) (sp _ r e (fun t => by simpa using h2 t))
  rcases tag_res [109, 97, 116, 99, 104] inp with ⟨r, hr, e⟩ | hC
  · exact terminated_err_right (by rw [alt_cons_err hA, alt_cons_err hB]; exact hr) (sp _ r e (fun t => by simpa using h3 t))
  · exact terminated_err_left (by rw [alt_cons_err hA, alt_cons_err hB]; exact hC)

/-! ## the dispatcher after `@` -/

theorem head_comment (X : Bytes) : opt (preceded (char 64) headAlt) (64 :: 42 :: X) = .ok X (some [42]) := by
  simp [opt, preceded, pmap, seq, char, headAlt, alt, orElse, tag, isPrefix]

theorem head_paren (X : Bytes) : opt (preceded (char 64) headAlt) (64 :: 40 :: X) = .ok X (some [40]) := by
  simp [opt, preceded, pmap, seq, char, headAlt, alt, orElse, tag, isPrefix]

/-- `@` followed by a name start that is not a keyword: the dispatcher consumes the `@` only -/
theorem head_name (b : UInt8) (X : Bytes) (hb : C05.isNameStart b = true) (hk : noKeywordB (b :: X) = true) :
    opt (preceded (char 64) headAlt) (64 :: b :: X) = .ok (b :: X) (some []) := by
  have hne : b ≠ 42 ∧ b ≠ 58 ∧ b ≠ 64 ∧ b ≠ 123 ∧ b ≠ 125 ∧ b ≠ 40 := by
    have h := (C05.nameStart_facts b hb).1
    refine ⟨?_, ?_, ?_, ?_, ?_, ?_⟩ <;> (rintro rfl; revert h; decide)
  obtain ⟨n1, n2, n3, n4, n5, n6⟩ := hne
  have hkw := keyword_err hk
  have hlast : value ([] : Bytes) (tag []) (b :: X) = .ok (b :: X) [] := value_of _ (tag_nil _)
  have : headAlt (b :: X) = .ok (b :: X) [] := by
    unfold headAlt
    rw [alt_cons_err (tag_cons_ne _ _ _ _ (Ne.symm n1)), alt_cons_err (tag_cons_ne _ _ _ _ (Ne.symm n2)),
      alt_cons_err (tag_cons_ne _ _ _ _ (Ne.symm n3)), alt_cons_err (tag_cons_ne _ _ _ _ (Ne.symm n4)),
      alt_cons_err (tag_cons_ne _ _ _ _ (Ne.symm n5)), alt_cons_err (tag_cons_ne _ _ _ _ (Ne.symm n6)),
      alt_cons_err hkw]
    exact hlast
  exact opt_of (preceded_of (char_cons 64 _) this)

/-! ## leaves -/

/-- **comment node** -/
theorem comment_node_complete (n : Nat) (body rest : Bytes) (h : noStarAt (body ++ [42]) = true) :
    templateExpression (n + 1) (64 :: 42 :: (body ++ 42 :: 64 :: rest)) = .ok rest .comment := by
  rw [templateExpression_eq, headAlt_eq]
  simp only [pbind, head_comment]
  rw [if_neg (by decide +kernel), if_neg (by decide +kernel), if_neg (by decide +kernel),
    if_neg (by decide +kernel), if_pos (by decide +kernel)]
  exact CallL.pmap_of (commentTail_complete body rest h)

/-- after `@` + a non-keyword name start the rest is handed to `expression` -/
theorem templateExpression_expr (n : Nat) (b : UInt8) (X : Bytes) (hb : C05.isNameStart b = true)
    (hk : noKeywordB (b :: X) = true) :
    templateExpression (n + 1) (64 :: b :: X) = pmap (expression n) TExpr.expr (b :: X) := by
  rw [templateExpression_eq, headAlt_eq]
  simp only [pbind, head_name b X hb hk]
  rw [if_neg (by decide +kernel), if_neg (by decide +kernel), if_neg (by decide +kernel),
    if_neg (by decide +kernel), if_neg (by decide +kernel), if_neg (by decide +kernel),
    if_neg (by decide +kernel), if_neg (by decide +kernel), if_neg (by decide +kernel)]

/-- **`@name`** -/
theorem name_node_complete (n : Nat) (hn : 3 ≤ n) (b : UInt8) (cs rest : Bytes) (hok : NameOk b cs)
    (hk : noKeywordB (b :: cs ++ rest) = true) (hend : nameEndB rest = true) (hs : C05.Stops rest) :
    templateExpression (n + 1) (64 :: (b :: cs ++ rest)) = .ok rest (.expr (b :: cs)) := by
  obtain ⟨m, rfl⟩ : ∃ m, n = m + 1 := ⟨n - 1, by omega⟩
  rw [List.cons_append, templateExpression_expr _ b _ hok.1 (by simpa using hk)]
  exact CallL.pmap_of (C05.expression_name_complete b cs rest hok.1 hok.2 (nameEndB_spec hend) hs m (by omega))

theorem noKeywordB_call (b : UInt8) (cs X : Bytes) (hok : NameOk b cs) : noKeywordB (b :: cs ++ 40 :: X) = true := by
  have h32 : C05.isNameChar 32 = false := by decide
  have hall := hok.2
  match cs, hall with
  | [], _ => simp [noKeywordB]
  | [c1], _ => simp [noKeywordB]
  | [c1, c2], h =>
    simp only [List.all_cons, Bool.and_eq_true] at h
    simp only [List.cons_append, List.nil_append]
    unfold noKeywordB
    split <;> first | rfl | (simp_all)
  | [c1, c2, c3], h =>
    simp only [List.all_cons, Bool.and_eq_true] at h
    simp only [List.cons_append, List.nil_append]
    unfold noKeywordB
    split <;> first | rfl | (simp_all)
  | [c1, c2, c3, c4], h =>
    simp only [List.all_cons, Bool.and_eq_true] at h
    simp only [List.cons_append, List.nil_append]
    unfold noKeywordB
    split <;> first | rfl | (simp_all)
  | c1 :: c2 :: c3 :: c4 :: c5 :: cs, h =>
    simp only [List.all_cons, Bool.and_eq_true] at h
    simp only [List.cons_append]
    unfold noKeywordB
    split <;> first | rfl | (simp_all)

/-- **`@name(group)`** -/
theorem nameCall_node_complete (n : Nat) (b : UInt8) (cs : Bytes) (g : List C05.Grp) (rest : Bytes)
    (hok : NameOk b cs) (hg : GroupOk g) (hs : C05.Stops rest) (hn : 2 * C05.Grp.depthL g + 4 ≤ n) :
    templateExpression (n + 1) (64 :: (b :: cs ++ [40] ++ C05.Grp.printL g ++ [41]) ++ rest)
      = .ok rest (.expr (b :: cs ++ [40] ++ C05.Grp.printL g ++ [41])) := by
  obtain ⟨m, rfl⟩ : ∃ m, n = m + 1 := ⟨n - 1, by omega⟩
  have e : 64 :: (b :: cs ++ [40] ++ C05.Grp.printL g ++ [41]) ++ rest =
      64 :: b :: (cs ++ 40 :: (C05.Grp.printL g ++ [41] ++ rest)) := by simp
  have hk : noKeywordB (b :: (cs ++ 40 :: (C05.Grp.printL g ++ [41] ++ rest))) = true := by
    have := noKeywordB_call b cs (C05.Grp.printL g ++ [41] ++ rest) hok
    simpa using this
  rw [e, templateExpression_expr _ b _ hok.1 hk]
  have := C05.expression_call_complete b cs g rest hok.1 hok.2 hg.1 hg.2 hs m (by omega)
  refine CallL.pmap_of ?_
  simpa using this

theorem str_rp : str ")" = [41] := by decide +kernel

/-- **`@(group)`** -/
theorem paren_node_complete (n : Nat) (g : List C05.Grp) (rest : Bytes) (hg : GroupOk g)
    (hn : 2 * C05.Grp.depthL g + 2 ≤ n) :
    templateExpression (n + 1) ([64, 40] ++ C05.Grp.printL g ++ [41] ++ rest)
      = .ok rest (.expr ([40] ++ C05.Grp.printL g ++ [41])) := by
  have e : [64, 40] ++ C05.Grp.printL g ++ [41] ++ rest = 64 :: 40 :: (C05.Grp.printL g ++ [41] ++ rest) := by simp
  rw [e, templateExpression_eq, headAlt_eq]
  simp only [pbind, head_paren]
  rw [if_neg (by decide +kernel), if_neg (by decide +kernel), if_neg (by decide +kernel),
    if_neg (by decide +kernel), if_neg (by decide +kernel), if_neg (by decide +kernel),
    if_neg (by decide +kernel), if_neg (by decide +kernel), if_pos (by decide +kernel)]
  have h1 := C05.exprInsideParens_complete g hg.1 hg.2 rest n (by omega)
  have h2 : tagS ")" ([41] ++ rest) = .ok rest [41] := by rw [tagS, str_rp]; exact tag_append _ _
  have := CallL.pmap_of (f := fun e => TExpr.expr (str "(" ++ e ++ str ")")) (terminated_of h1 h2)
  rw [this, str_lp, str_rp]

/-! ## a plain name as a Rust fragment -/

/-- a byte that ends a name and continues no expression chain -/
def exprEndB (c : UInt8) : Bool :=
  !C05.isNameChar c && c != 46 && c != 58 && c != 40 && c != 123 && c != 91 && c != 33

theorem exprEndB_spec {c : UInt8} (h : exprEndB c = true) :
    C05.isNameChar c = false ∧ c ≠ 46 ∧ c ≠ 58 ∧ c ≠ 40 ∧ c ≠ 123 ∧ c ≠ 91 ∧ c ≠ 33 := by
  simpa [exprEndB, and_assoc] using h

theorem stops_of_exprEnd (c : UInt8) (x : Bytes) (h : exprEndB c = true) : C05.Stops (c :: x) := by
  obtain ⟨_, h46, h58, h40, h123, h91, h33⟩ := exprEndB_spec h
  rw [C05.stops_iff]
  intro m hm
  obtain ⟨m, rfl⟩ : ∃ m', m = m' + 1 := ⟨m - 1, by omega⟩
  refine ⟨_, chainStep_stop m _ ?_⟩
  intro b' x' e
  obtain ⟨rfl, _⟩ := List.cons.inj e
  exact ⟨h46, h58, h40, h123, h91, h33⟩

/-- a plain name followed by a byte that ends it is one `expression` -/
theorem name_expr_ok (n : Nat) (hn : 3 ≤ n) (b : UInt8) (cs : Bytes) (hok : NameOk b cs) (c : UInt8) (x : Bytes)
    (hc : exprEndB c = true) : expression n (b :: cs ++ c :: x) = .ok (c :: x) (b :: cs) := by
  obtain ⟨m, rfl⟩ : ∃ m, n = m + 1 := ⟨n - 1, by omega⟩
  refine C05.expression_name_complete b cs (c :: x) hok.1 hok.2 ?_ (stops_of_exprEnd c x hc) m (by omega)
  intro c' r e
  obtain ⟨rfl, _⟩ := List.cons.inj e
  exact (exprEndB_spec hc).1

theorem exprEndB_layoutHead (c : UInt8) (h : isSpace c = true ∨ c = 64) : exprEndB c = true := by
  obtain ⟨a1, a2, a3, a4, a5, a6, a7, _⟩ := layoutHead_facts c h
  simp [exprEndB, a1, a2, a3, a4, a5, a6, a7]

/-- … in particular when followed by layout -/
theorem name_expr_layout (n : Nat) (hn : 3 ≤ n) (b : UInt8) (cs : Bytes) (hok : NameOk b cs) (tail : Bytes)
    (ht : StartsLayout tail) : expression n (b :: cs ++ tail) = .ok tail (b :: cs) := by
  obtain ⟨c, x, rfl, hc⟩ := startsLayout_head ht
  exact name_expr_ok n hn b cs hok c x (exprEndB_layoutHead c hc)

theorem str_dotdot : str ".." = [46, 46] := by decide +kernel

/-- a plain name as the iterable of `@for` -/
theorem name_iter_ok (n : Nat) (hn : 3 ≤ n) (b : UInt8) (cs : Bytes) (hok : NameOk b cs) :
    ∀ tail, StartsLayout tail → loopExpression n (b :: cs ++ tail) = .ok tail (b :: cs) := by
  intro tail ht
  have hexpr := name_expr_layout n hn b cs hok tail ht
  obtain ⟨c, x, rfl, hc⟩ := startsLayout_head ht
  have h46 : c ≠ 46 := (layoutHead_facts c hc).2.1
  have hv : validUtf8 (b :: cs) = true :=
    rustName_valid (C05.rustName_complete b cs (c :: x) hok.1 hok.2 (fun c' r e => by
      obtain ⟨rfl, _⟩ := List.cons.inj e
      exact (layoutHead_facts _ hc).1))
  have hdd : tagS ".." (c :: x) = .err [] := by
    rw [tagS, str_dotdot]; exact tag_cons_ne _ _ _ _ (Ne.symm h46)
  unfold loopExpression
  apply mapRes_toStr_of _ hv
  rw [show b :: cs ++ c :: x = (b :: cs) ++ c :: x from rfl]
  apply recognize_ok_of (v := b :: cs)
  exact terminated_of hexpr (opt_err (preceded_err_left (terminated_err_left hdd)))

/-- a plain name as the loop variable of `@for` -/
theorem name_pat_ok (n : Nat) (hn : 1 ≤ n) (b : UInt8) (cs : Bytes) (hok : NameOk b cs) :
    ∀ tail, StartsLayout tail →
      context "Expected loop variable name or destructuring tuple"
        (alt [mapRes (recognize (preceded rustName (opt (exprInBraces n)))) toStr,
              pmap (seq (opt (char 38)) (delimited (char 40) (commaExpressions n) (char 41)))
                (fun (pre, args) => (match pre with | some _ => str "&" | none => []) ++ str "(" ++ args ++ str ")")])
        (b :: cs ++ tail) = .ok tail (b :: cs) := by
  intro tail ht
  obtain ⟨c, x, rfl, hc⟩ := startsLayout_head ht
  obtain ⟨m, rfl⟩ : ∃ m, n = m + 1 := ⟨n - 1, by omega⟩
  have hname := C05.rustName_complete b cs (c :: x) hok.1 hok.2 (fun c' r e => by
      obtain ⟨rfl, _⟩ := List.cons.inj e
      exact (layoutHead_facts _ hc).1)
  have hv : validUtf8 (b :: cs) = true := rustName_valid hname
  have h123 : c ≠ 123 := (layoutHead_facts c hc).2.2.2.2.1
  have hbr := exprInBraces_cons m c x h123
  refine context_ok _ (alt_cons_ok ?_)
  apply mapRes_toStr_of _ hv
  rw [show b :: cs ++ c :: x = (b :: cs) ++ c :: x from rfl]
  apply recognize_ok_of (v := none)
  exact preceded_of hname (opt_err hbr)

/-! ## `@if` chains -/

/-- `if2` on L1 name L2 `{` body `}` + whatever the `else` part gives -/
theorem if2_name (m : Nat) (hm : 3 ≤ m) (l₁ l₂ : Layout) (h₁ : LayoutOk l₁) (h₂ : LayoutOk l₂) (hne : l₂ ≠ [])
    (b : UInt8) (cs : Bytes) (hc : CondOk b cs) (bodyB R rest : Bytes) (nodes : List TExpr) (els : Option (List TExpr))
    (hbody : templateBlock m (123 :: (bodyB ++ 125 :: R)) = .ok R nodes)
    (he : opt (preceded (delimited spacelike (tagS "else") spacelike)
            (alt [preceded (tagS "if") (pmap (if2 m) (fun e => [e])), templateBlock m])) R = .ok rest els) :
    if2 (m + 1) (printLayout l₁ ++ (b :: cs ++ (printLayout l₂ ++ 123 :: (bodyB ++ 125 :: R))))
      = .ok rest (.ifBlock (b :: cs) nodes els) :=
  if2_of_parts m
    (spacelike_complete l₁ h₁ _ (stopsLayout_append _ _ (name_stopsLayout b cs hc.1.1) (by simp)
      (printLayout_starts l₂ h₂ hne _)))
    (name_cond_ok m hm b cs hc.1.1 hc.1.2 hc.2 l₂ _ h₂ hne)
    (spacelike_complete l₂ h₂ _ (stopsLayout_cons 123 _ (by decide) (by decide))) hbody he

/-- no `else` branch follows -/
theorem noElse_opt (n : Nat) (follow : Bytes) (h : noElseB follow = true) :
    opt (preceded (delimited spacelike (tagS "else") spacelike)
      (alt [preceded (tagS "if") (pmap (if2 (n + 1)) (fun e => [e])), templateBlock (n + 1)])) follow = .ok follow none := by
  obtain ⟨r, hr⟩ := spacelike_total follow
  simp only [noElseB, hr] at h
  cases hp : isPrefix [101, 108, 115, 101] r with
  | none =>
    have ht : tagS "else" r = .err [] := by
      rw [tagS, str_else]; unfold tag; rw [hp]
    exact opt_err (preceded_err_left (delimited_err_mid hr ht))
  | some r' =>
    have ht : tagS "else" r = .ok r' [101, 108, 115, 101] := by
      rw [tagS, str_else]; unfold tag; rw [hp]
    obtain ⟨r'', hr''⟩ := spacelike_total r'
    rw [hp] at h
    simp only [hr''] at h
    have h123 : ∀ x, r'' ≠ 123 :: x := by
      intro x e; subst e; simp at h
    have hif : ∀ x, r'' ≠ 105 :: 102 :: x := by
      intro x e; subst e; simp at h
    have h1 : tagS "if" r'' = .err [] := by
      rw [tagS, str_if]
      rcases tag_res [105, 102] r'' with ⟨x, _, e⟩ | h
      · exact absurd e (hif x)
      · exact h
    have h2 : templateBlock (n + 1) r'' = .err [⟨r''.length, .chr 123⟩] := by
      rw [templateBlock]
      exact preceded_err_left (char_ne 123 _ h123)
    have halt : alt [preceded (tagS "if") (pmap (if2 (n + 1)) (fun e => [e])), templateBlock (n + 1)] r'' =
        .err [⟨r''.length, .chr 123⟩] := by
      rw [alt_cons_err (preceded_err_left h1)]; exact h2
    exact opt_err (preceded_err_right (delimited_of hr ht hr'') halt)

/-- the `else if …` tail from the results of its parts -/
theorem elif_of_parts (n : Nat) {inp r1 x rest : Bytes} {e : TExpr}
    (hs1 : spacelike inp = .ok ([101, 108, 115, 101] ++ r1) ())
    (hs2 : spacelike r1 = .ok (105 :: 102 :: x) ())
    (hi : if2 n x = .ok rest e) :
    opt (preceded (delimited spacelike (tagS "else") spacelike)
      (alt [preceded (tagS "if") (pmap (if2 n) (fun e => [e])), templateBlock n])) inp =
      .ok rest (some [e]) := by
  have ht : tagS "else" ([101, 108, 115, 101] ++ r1) = .ok r1 [101, 108, 115, 101] := by
    rw [tagS, str_else]; exact tag_append _ _
  have hif : tagS "if" (105 :: 102 :: x) = .ok x [105, 102] := by
    rw [tagS, str_if]; exact tag_append [105, 102] x
  have halt : alt [preceded (tagS "if") (pmap (if2 n) (fun e => [e])), templateBlock n] (105 :: 102 :: x) =
      .ok rest [e] := alt_cons_ok (preceded_of hif (CallL.pmap_of hi))
  exact opt_of (preceded_of (delimited_of hs1 ht hs2) halt)

end Ructe.Src
