import RucteModel.Statics

/-! Lemma library for `C07` (hashed static names): base64url, `lastDot`, `md5` length. -/
namespace Ructe.Hash
open Nom Ructe

theorem b64_val_char : ∀ n < 64, b64Val? (b64Char n) = some n := by
  decide

theorem md5_length (data : Bytes) : (md5 data).length = 16 := by
  simp [md5, wordBytes]

theorem decode3 (a b c : UInt8) (r : Bytes) :
    base64UrlDecode (base64Url (a :: b :: c :: r)) =
      (base64UrlDecode (base64Url r)).map (fun t => a :: b :: c :: t) := by
  have ha := a.toNat_lt
  have hb := b.toNat_lt
  have hc := c.toNat_lt
  simp only [base64Url, List.cons_append, List.nil_append, base64UrlDecode]
  rw [b64_val_char _ (by omega), b64_val_char _ (by omega), b64_val_char _ (by omega), b64_val_char _ (by omega)]
  cases h : base64UrlDecode (base64Url r) with
  | none => simp
  | some rest =>
    simp only [Option.map_some, Option.some.injEq, List.cons.injEq, and_true]
    refine ⟨?_, ?_, ?_⟩ <;> apply UInt8.toNat_inj.mp <;> simp <;> omega


theorem decode6 (a b c d e f : UInt8) :
    base64UrlDecode (base64Url [a, b, c, d, e, f]) = some [a, b, c, d, e, f] := by
  rw [decode3, decode3]; rfl

theorem length_six {x : Bytes} (h : x.length = 6) : ∃ a b c d e f, x = [a, b, c, d, e, f] := by
  match x, h with
  | [a, b, c, d, e, f], _ => exact ⟨a, b, c, d, e, f, rfl⟩

theorem lastDot_go_spec (s : Bytes) (i : Nat) (acc : Option Nat) (j : Nat)
    (h : lastDot.go s i acc = some j) :
    (acc = some j ∧ (46 : UInt8) ∉ s) ∨
    (∃ k, j = i + k ∧ k < s.length ∧ s[k]? = some 46 ∧ (46 : UInt8) ∉ s.drop (k + 1)) := by
  induction s generalizing i acc with
  | nil => left; simpa [lastDot.go] using h
  | cons c r ih =>
    rw [lastDot.go] at h
    rcases ih _ _ h with ⟨h1, h2⟩ | ⟨k, hk1, hk2, hk3, hk4⟩
    · by_cases hc : c = 46
      · right
        refine ⟨0, ?_, by simp, by simp [hc], by simpa using h2⟩
        simp [hc] at h1; omega
      · left
        simp [hc] at h1
        refine ⟨h1, ?_⟩
        simp only [List.mem_cons, not_or]
        exact ⟨fun e => hc e.symm, h2⟩
    · right
      exact ⟨k + 1, by omega, by simp; omega, by simpa using hk3, by simpa using hk4⟩

theorem lastDot_spec (f : Bytes) (i : Nat) (h : lastDot f = some i) :
    i < f.length ∧ f = f.take i ++ [46] ++ f.drop (i + 1) ∧ (46 : UInt8) ∉ f.drop (i + 1) := by
  rcases lastDot_go_spec f 0 none i h with ⟨h1, _⟩ | ⟨k, hk1, hk2, hk3, hk4⟩
  · cases h1
  · have : k = i := by omega
    subst this
    refine ⟨hk2, ?_, hk4⟩
    have hg : f[k] = 46 := by
      rw [List.getElem?_eq_getElem hk2] at hk3; exact Option.some.inj hk3
    conv => lhs; rw [← List.take_append_drop k f, List.drop_eq_getElem_cons hk2, hg]
    simp

end Ructe.Hash
