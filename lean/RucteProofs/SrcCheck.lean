import RucteProps.C13Header

/-!
# A Boolean well-formedness checker for source templates, proved sound

`wfB ns follow` mirrors `WF ns follow` (`RucteProofs/SrcTree.lean`) conjunct by conjunct:

* `C05.Stops follow` (a statement about the parser) is replaced by the decidable sufficient test
  `Ructe.stopsB follow` (`C05.stops_classes`) — the **only** place where `wfB` is stronger than `WF`;
* `LayoutOk l` is `l.all Item.ok` (`layoutB`), `l ≠ []` is `!l.isEmpty`, `NameOk` / `GroupOk` are their
  Boolean conjunctions, implications `p = true → q` are `!p || q`.

`wfB_sound : wfB ns follow = true → WF ns follow`, and for whole templates
`templateOkB_sound : templateOkB h ns = true →
   template (fuelTemplate h ns) (printHeader h ++ printNodes ns) = .ok [] (intended h ns)`.
-/
namespace Ructe.Src
open Nom Ructe.C15

/-- Boolean `NameOk` -/
def nameOkB (b : UInt8) (cs : Bytes) : Bool := C05.isNameStart b && cs.all C05.isNameChar

/-- Boolean `GroupOk` -/
def groupOkB (g : List C05.Grp) : Bool := C05.Grp.wfL g && validUtf8 (C05.Grp.printL g)

theorem nameOkB_sound {b : UInt8} {cs : Bytes} (h : nameOkB b cs = true) : NameOk b cs := by
  simpa [nameOkB, NameOk] using h

theorem groupOkB_sound {g : List C05.Grp} (h : groupOkB g = true) : GroupOk g := by
  simpa [groupOkB, GroupOk] using h

theorem ne_nil_of_isEmpty {α : Type} {l : List α} (h : (!l.isEmpty) = true) : l ≠ [] := by
  cases l with
  | nil => simp at h
  | cons a l => simp

mutual
/-- Boolean `WFNode` -/
def wfNodeB : Node → Bytes → Bool
  | .text t, follow => !t.isEmpty && C01.plainText t && validUtf8 t && textEndB follow
  | .escAt, _ => true
  | .escOpen, _ => true
  | .escClose, _ => true
  | .comment body, _ => noStarAt (body ++ [42])
  | .expr e, follow => e.wf && dispatchB (e.print ++ follow) && e.follows follow && Ructe.stopsB follow
  | .paren g, _ => groupOkB g
  | .ifNode c, follow => wfChainB c follow
  | .forIn l₁ pat l₂ l₃ iter l₄ body, follow =>
    layoutB l₁ && layoutB l₂ && layoutB l₃ && layoutB l₄ && (!pat.bare || !l₂.isEmpty) && !l₄.isEmpty && pat.wf &&
      iter.wf && wfB body (125 :: follow)
  | .matchOn l₀ e l₁ arms lEnd, follow =>
    layoutB l₀ && layoutB l₁ && layoutB lEnd && !l₁.isEmpty && e.wf && wfArmsB arms (printLayout lEnd ++ 125 :: follow)
  | .call nb ncs args, follow => nameOkB nb ncs && wfArgsB args (41 :: follow)
/-- Boolean `WF` -/
def wfB : List Node → Bytes → Bool
  | [], _ => true
  | x :: r, follow => wfNodeB x (printNodes r ++ follow) && wfB r follow
/-- Boolean `WFChain` -/
def wfChainB : IfChain → Bytes → Bool
  | .last l₁ c l₂ body, follow =>
    layoutB l₁ && layoutB l₂ && !l₂.isEmpty && c.wf && wfB body (125 :: follow) && noElseB follow
  | .els l₁ c l₂ body l₃ l₄ body2, follow =>
    layoutB l₁ && layoutB l₂ && !l₂.isEmpty && c.wf && layoutB l₃ && layoutB l₄ &&
      wfB body (125 :: (printLayout l₃ ++ 101 :: 108 :: 115 :: 101 :: (printLayout l₄ ++ 123 :: (printNodes body2 ++ 125 :: follow)))) &&
      wfB body2 (125 :: follow)
  | .elif l₁ c l₂ body l₃ l₄ next, follow =>
    layoutB l₁ && layoutB l₂ && !l₂.isEmpty && c.wf && layoutB l₃ && layoutB l₄ &&
      wfB body (125 :: (printLayout l₃ ++ 101 :: 108 :: 115 :: 101 :: (printLayout l₄ ++ 105 :: 102 :: (printChain next ++ follow)))) &&
      wfChainB next follow
/-- Boolean `WFArm` -/
def wfArmB : Arm → Bytes → Bool
  | .mk l₁ pat l₂ l₃ body, follow =>
    layoutB l₁ && layoutB l₂ && layoutB l₃ && pat.wf && wfB body (125 :: follow)
/-- Boolean `WFArms` -/
def wfArmsB : List Arm → Bytes → Bool
  | [], _ => true
  | a :: r, follow => wfArmB a (printArms r ++ follow) && wfArmsB r follow
/-- Boolean `WFArg` -/
def wfArgB : Arg → Bytes → Bool
  | .rust pre e, _ => layoutB pre && e.wf
  | .block pre body after, follow => layoutB pre && layoutB after && wfB body (125 :: (printLayout after ++ follow))
/-- Boolean `WFMore` -/
def wfMoreB : List Arg → Bytes → Bool
  | [], _ => true
  | a :: r, follow => wfArgB a (printMore r ++ follow) && wfMoreB r follow
/-- Boolean `WFArgs` -/
def wfArgsB : List Arg → Bytes → Bool
  | [], _ => true
  | a :: r, follow => a.pre.isEmpty && wfArgB a (printMore r ++ follow) && wfMoreB r follow
end

mutual
theorem wfNodeB_sound : (x : Node) → ∀ follow, wfNodeB x follow = true → WFNode x follow
  | .text t, follow => fun h => by
    simp only [wfNodeB, Bool.and_eq_true] at h
    obtain ⟨⟨⟨h1, h2⟩, h3⟩, h4⟩ := h
    exact ⟨ne_nil_of_isEmpty h1, h2, h3, h4⟩
  | .escAt, _ => fun _ => trivial
  | .escOpen, _ => fun _ => trivial
  | .escClose, _ => fun _ => trivial
  | .comment body, _ => fun h => by
    simp only [wfNodeB] at h
    exact h
  | .expr e, follow => fun h => by
    simp only [wfNodeB, Bool.and_eq_true] at h
    obtain ⟨⟨⟨h1, h2⟩, h3⟩, h4⟩ := h
    exact ⟨h1, h2, h3, stopsB_sound follow h4⟩
  | .paren g, _ => fun h => by
    simp only [wfNodeB] at h
    exact groupOkB_sound h
  | .ifNode c, follow => fun h => by
    simp only [wfNodeB] at h
    exact wfChainB_sound c follow h
  | .forIn l₁ pat l₂ l₃ iter l₄ body, follow => fun h => by
    simp only [wfNodeB, Bool.and_eq_true] at h
    obtain ⟨⟨⟨⟨⟨⟨⟨⟨h1, h2⟩, h3⟩, h4⟩, h5⟩, h6⟩, h7⟩, h8⟩, h9⟩ := h
    refine ⟨layoutB_ok h1, layoutB_ok h2, layoutB_ok h3, layoutB_ok h4, ?_, ne_nil_of_isEmpty h6, h7, h8,
      wfB_sound body _ h9⟩
    intro hb
    rw [hb] at h5
    exact ne_nil_of_isEmpty (by simpa using h5)
  | .matchOn l₀ e l₁ arms lEnd, follow => fun h => by
    simp only [wfNodeB, Bool.and_eq_true] at h
    obtain ⟨⟨⟨⟨⟨h1, h2⟩, h3⟩, h4⟩, h5⟩, h6⟩ := h
    exact ⟨layoutB_ok h1, layoutB_ok h2, layoutB_ok h3, ne_nil_of_isEmpty h4, h5, wfArmsB_sound arms _ h6⟩
  | .call nb ncs args, follow => fun h => by
    simp only [wfNodeB, Bool.and_eq_true] at h
    exact ⟨nameOkB_sound h.1, wfArgsB_sound args _ h.2⟩
/-- **soundness of the checker** -/
theorem wfB_sound : (ns : List Node) → ∀ follow, wfB ns follow = true → WF ns follow
  | [], _ => fun _ => trivial
  | x :: r, follow => fun h => by
    simp only [wfB, Bool.and_eq_true] at h
    exact ⟨wfNodeB_sound x _ h.1, wfB_sound r follow h.2⟩
theorem wfChainB_sound : (c : IfChain) → ∀ follow, wfChainB c follow = true → WFChain c follow
  | .last l₁ c l₂ body, follow => fun h => by
    simp only [wfChainB, Bool.and_eq_true] at h
    obtain ⟨⟨⟨⟨⟨h1, h2⟩, h3⟩, h4⟩, h5⟩, h6⟩ := h
    exact ⟨layoutB_ok h1, layoutB_ok h2, ne_nil_of_isEmpty h3, h4, wfB_sound body _ h5, h6⟩
  | .els l₁ c l₂ body l₃ l₄ body2, follow => fun h => by
    simp only [wfChainB, Bool.and_eq_true] at h
    obtain ⟨⟨⟨⟨⟨⟨⟨h1, h2⟩, h3⟩, h4⟩, h5⟩, h6⟩, h7⟩, h8⟩ := h
    exact ⟨layoutB_ok h1, layoutB_ok h2, ne_nil_of_isEmpty h3, h4, layoutB_ok h5, layoutB_ok h6,
      wfB_sound body _ h7, wfB_sound body2 _ h8⟩
  | .elif l₁ c l₂ body l₃ l₄ next, follow => fun h => by
    simp only [wfChainB, Bool.and_eq_true] at h
    obtain ⟨⟨⟨⟨⟨⟨⟨h1, h2⟩, h3⟩, h4⟩, h5⟩, h6⟩, h7⟩, h8⟩ := h
    exact ⟨layoutB_ok h1, layoutB_ok h2, ne_nil_of_isEmpty h3, h4, layoutB_ok h5, layoutB_ok h6,
      wfB_sound body _ h7, wfChainB_sound next follow h8⟩
theorem wfArmB_sound : (a : Arm) → ∀ follow, wfArmB a follow = true → WFArm a follow
  | .mk l₁ pat l₂ l₃ body, follow => fun h => by
    simp only [wfArmB, Bool.and_eq_true] at h
    obtain ⟨⟨⟨⟨h1, h2⟩, h3⟩, h4⟩, h5⟩ := h
    exact ⟨layoutB_ok h1, layoutB_ok h2, layoutB_ok h3, h4, wfB_sound body _ h5⟩
theorem wfArmsB_sound : (as : List Arm) → ∀ follow, wfArmsB as follow = true → WFArms as follow
  | [], _ => fun _ => trivial
  | a :: r, follow => fun h => by
    simp only [wfArmsB, Bool.and_eq_true] at h
    exact ⟨wfArmB_sound a _ h.1, wfArmsB_sound r follow h.2⟩
theorem wfArgB_sound : (a : Arg) → ∀ follow, wfArgB a follow = true → WFArg a follow
  | .rust pre e, _ => fun h => by
    simp only [wfArgB, Bool.and_eq_true] at h
    exact ⟨layoutB_ok h.1, h.2⟩
  | .block pre body after, follow => fun h => by
    simp only [wfArgB, Bool.and_eq_true] at h
    exact ⟨layoutB_ok h.1.1, layoutB_ok h.1.2, wfB_sound body _ h.2⟩
theorem wfMoreB_sound : (as : List Arg) → ∀ follow, wfMoreB as follow = true → WFMore as follow
  | [], _ => fun _ => trivial
  | a :: r, follow => fun h => by
    simp only [wfMoreB, Bool.and_eq_true] at h
    exact ⟨wfArgB_sound a _ h.1, wfMoreB_sound r follow h.2⟩
theorem wfArgsB_sound : (as : List Arg) → ∀ follow, wfArgsB as follow = true → WFArgs as follow
  | [], _ => fun _ => trivial
  | a :: r, follow => fun h => by
    simp only [wfArgsB, Bool.and_eq_true] at h
    exact ⟨by simpa using h.1.1, wfArgB_sound a _ h.1.2, wfMoreB_sound r follow h.2⟩
end

/-! ## what may follow a layout slot -/

/-- decidable form of `C15.StopsLayout`: the first byte is not white space and the first two are not `@*` -/
def stopsLayoutB (bs : Bytes) : Bool := Ructe.Hdr.stopsLayoutB bs

theorem stopsLayoutB_sound (bs : Bytes) (h : stopsLayoutB bs = true) : C15.StopsLayout bs :=
  Ructe.Hdr.stopsLayoutB_sound bs h

/-- `stopsLayoutB` is exact -/
theorem stopsLayoutB_complete (bs : Bytes) (h : C15.StopsLayout bs) : stopsLayoutB bs = true := by
  obtain ⟨h1, h2⟩ := h
  match bs with
  | [] => rfl
  | [b] => simp [stopsLayoutB, Ructe.Hdr.stopsLayoutB, h1 b [] rfl]
  | b :: c :: x =>
    simp only [stopsLayoutB, Ructe.Hdr.stopsLayoutB, h1 b _ rfl, Bool.not_false, Bool.true_and, Bool.not_eq_true',
      Bool.and_eq_false_iff, beq_eq_false_iff_ne]
    by_cases hb : b = 64
    · by_cases hc : c = 42
      · exact absurd ⟨x, by rw [hb, hc]⟩ h2
      · exact .inr hc
    · exact .inl hb

/-! ## whole templates -/

open Ructe.Hdr Ructe.C13Header in
/-- the Boolean test that a header and a body are in the domain of `template_complete` -/
def templateOkB (h : Header) (ns : List Node) : Bool :=
  wfHeader h && wfB ns [] && stopsLayoutB (printNodes ns)

open Ructe.Hdr Ructe.C13Header in
/-- **every accepted template is parsed by the model to the intended tree**, at the documented fuel -/
theorem templateOkB_sound (h : Header) (ns : List Node) (hok : templateOkB h ns = true) :
    template (fuelTemplate h ns) (printHeader h ++ printNodes ns) = .ok [] (intended h ns) := by
  simp only [templateOkB, Bool.and_eq_true] at hok
  exact template_complete h ns _ hok.1.1 (wfB_sound ns [] hok.1.2) (stopsLayoutB_sound _ hok.2) (Nat.le_refl _)

open Ructe.Hdr Ructe.C13Header in
/-- … and at any larger fuel -/
theorem templateOkB_sound_fuel (h : Header) (ns : List Node) (n : Nat) (hok : templateOkB h ns = true)
    (hn : fuelTemplate h ns ≤ n) :
    template n (printHeader h ++ printNodes ns) = .ok [] (intended h ns) := by
  simp only [templateOkB, Bool.and_eq_true] at hok
  exact template_complete h ns n hok.1.1 (wfB_sound ns [] hok.1.2) (stopsLayoutB_sound _ hok.2) hn

end Ructe.Src

#print axioms Ructe.Src.wfB_sound
#print axioms Ructe.Src.stopsLayoutB_sound
#print axioms Ructe.Src.templateOkB_sound
