import RucteModel.Diag
import RucteProofs.ParserSound
open Nom

/-!
# A rejection always carries a visible diagnostic

`ErrNE p`  : whenever `p` fails, the list of visible error entries is non-empty;
`NoErr p`  : `p` never fails.
The only sources of an *empty* error list are the primitive matchers (`tag`, `isNot`, …) and the
"no progress" guards of the loops.  In `template` every primitive matcher that can fail sits below a
`context`, and the loops never hit the guard because their bodies consume input.
-/
namespace Nom

variable {α β γ : Type}

def ErrNE (p : Parser α) : Prop := ∀ inp es, p inp = .err es → es ≠ []
def NoErr (p : Parser α) : Prop := ∀ inp es, p inp ≠ .err es

theorem NoErr.errNE {p : Parser α} (h : NoErr p) : ErrNE p :=
  fun inp es he => absurd he (h inp es)

theorem errNE_context {p : Parser α} {msg : String} : ErrNE (context msg p) := by
  intro inp es h; unfold context at h
  split at h
  · simp at h; subst h; simp
  · next hne => exact absurd h (hne _)

theorem errNE_char (c : UInt8) : ErrNE (char c) := by
  intro inp es h; unfold char at h
  split at h
  · split at h <;> simp at h
    subst h; simp
  · simp at h; subst h; simp

theorem errNE_pmap {p : Parser α} {f : α → β} (hp : ErrNE p) : ErrNE (pmap p f) := by
  intro inp es h; unfold pmap at h
  split at h <;> try simp at h
  next e hp' => subst h; exact hp _ _ hp'

theorem noErr_pmap {p : Parser α} {f : α → β} (hp : NoErr p) : NoErr (pmap p f) := by
  intro inp es h; unfold pmap at h
  split at h <;> try simp at h
  next e hp' => exact hp _ _ hp'

theorem noErr_value {p : Parser α} {v : β} (hp : NoErr p) : NoErr (value v p) := noErr_pmap hp

theorem errNE_seq {p : Parser α} {q : Parser β} (hp : ErrNE p) (hq : ErrNE q) : ErrNE (seq p q) := by
  intro inp es h; unfold seq at h
  split at h <;> try simp at h
  · next r1 a h1 =>
    split at h <;> try simp at h
    next e h2 => subst h; exact hq _ _ h2
  · next e h1 => subst h; exact hp _ _ h1

theorem errNE_preceded {p : Parser α} {q : Parser β} (hp : ErrNE p) (hq : ErrNE q) :
    ErrNE (preceded p q) := errNE_pmap (errNE_seq hp hq)
theorem errNE_terminated {p : Parser α} {q : Parser β} (hp : ErrNE p) (hq : ErrNE q) :
    ErrNE (terminated p q) := errNE_pmap (errNE_seq hp hq)
theorem errNE_delimited {p : Parser α} {q : Parser β} {s : Parser γ}
    (hp : ErrNE p) (hq : ErrNE q) (hs : ErrNE s) : ErrNE (delimited p q s) :=
  errNE_preceded hp (errNE_terminated hq hs)

theorem noErr_opt {p : Parser α} : NoErr (opt p) := by
  intro inp es h; unfold opt at h
  split at h <;> simp at h

theorem many0Go_noErr {p : Parser α} (hp : Consumes p) :
    ∀ n inp acc es, many0Go p n inp acc ≠ .err es := by
  intro n
  induction n with
  | zero => intro inp acc es h; simp [many0Go] at h
  | succ n ih =>
    intro inp acc es h
    simp only [many0Go] at h
    split at h
    · simp at h
    · simp at h
    · simp at h
    · next r v h1 =>
      have := hp _ _ _ h1
      split at h
      · omega
      · exact ih _ _ _ h

/-- `many0` of a consuming parser never fails (the "no progress" guard is unreachable) -/
theorem noErr_many0 {p : Parser α} (hp : Consumes p) : NoErr (many0 p) :=
  fun _ es => many0Go_noErr hp _ _ _ es

theorem sepLoop_noErr {sep : Parser β} {p : Parser α} (hs : Consumes sep) (hp : Sfx p) :
    ∀ n inp acc es, sepLoop sep p n inp acc ≠ .err es := by
  intro n
  induction n with
  | zero => intro inp acc es h; simp [sepLoop] at h
  | succ n ih =>
    intro inp acc es h
    simp only [sepLoop] at h
    split at h
    · simp at h
    · simp at h
    · simp at h
    · next r1 v1 h1 =>
      split at h
      · simp at h
      · simp at h
      · simp at h
      · next r2 v2 h2 =>
        have := hs _ _ _ h1
        have := hp.len h2
        split at h
        · omega
        · exact ih _ _ _ h

/-- `separated_list0` with a consuming separator never fails -/
theorem noErr_sepList0 {sep : Parser β} {p : Parser α} (hs : Consumes sep) (hp : Sfx p) :
    NoErr (sepList0 sep p) := by
  intro inp es h; unfold sepList0 at h
  split at h
  · simp at h
  · simp at h
  · simp at h
  · exact sepLoop_noErr hs hp _ _ _ _ h

theorem manyTillGo_errNE {f : Parser α} {g : Parser β} (hf : ErrNE f) (hc : Consumes f) :
    ∀ n inp acc es, manyTillGo f g n inp acc = .err es → es ≠ [] := by
  intro n
  induction n with
  | zero => intro inp acc es h; simp [manyTillGo] at h
  | succ n ih =>
    intro inp acc es h
    simp only [manyTillGo] at h
    split at h
    · simp at h
    · simp at h
    · simp at h
    · split at h
      · next e h1 => simp at h; subst h; exact hf _ _ h1
      · simp at h
      · simp at h
      · next r1 v1 h1 =>
        have := hc _ _ _ h1
        split at h
        · omega
        · exact ih _ _ _ h

theorem errNE_manyTill {f : Parser α} {g : Parser β} (hf : ErrNE f) (hc : Consumes f) :
    ErrNE (manyTill f g) :=
  fun _ _ h => manyTillGo_errNE hf hc _ _ _ _ h

/-! ### a few more `Consumes` lemmas -/

theorem consumes_preceded_left {p : Parser α} {q : Parser β} (hp : Consumes p) (hq : Sfx q) :
    Consumes (preceded p q) := consumes_pmap (consumes_seq_left hp hq)
theorem consumes_terminated_left {p : Parser α} {q : Parser β} (hp : Consumes p) (hq : Sfx q) :
    Consumes (terminated p q) := consumes_pmap (consumes_seq_left hp hq)
theorem consumes_value {p : Parser α} {v : β} (hp : Consumes p) : Consumes (value v p) :=
  consumes_pmap hp

/-- a parser that first tries an optional consuming prefix and then continues suffix-respectingly,
or else runs a consuming fallback, consumes -/
theorem consumes_pbind_opt {p : Parser α} {f : Option α → Parser β} (hp : Consumes p)
    (hs : ∀ k, Sfx (f (some k))) (hn : Consumes (f none)) : Consumes (pbind (opt p) f) := by
  intro inp r v h
  unfold pbind opt at h
  split at h <;> try simp at h
  next r1 a h1 =>
    split at h1 <;> try simp at h1
    · next r2 v2 h2 =>
      obtain ⟨e1, e2⟩ := h1
      subst e1 e2
      exact Nat.lt_of_le_of_lt ((hs _).len h) (hp _ _ _ h2)
    · obtain ⟨e1, e2⟩ := h1
      subst e1 e2
      exact hn _ _ _ h

end Nom

namespace Ructe

theorem consumes_comment : Consumes comment := by
  unfold comment
  exact consumes_preceded_left (consumes_tag (by decide +kernel)) good_commentTail.sfx

theorem noErr_spacelike : NoErr spacelike := by
  unfold spacelike
  apply noErr_value; apply noErr_many0
  apply consumes_alt_cons consumes_comment
  apply consumes_alt_one
  exact consumes_value (consumes_take1 _)

theorem errNE_endOfFile : ErrNE endOfFile := by
  intro inp es h; unfold endOfFile at h
  split at h
  · simp at h
  · simp at h; subst h; simp

/-- `template_expression` consumes at least one byte on success: either the leading `@` or a
non-empty run of text -/
theorem consumes_templateExpression (n : Nat) : Consumes (templateExpression n) := by
  cases n with
  | zero => rw [templateExpression]; exact consumes_oom
  | succ n =>
    rw [templateExpression_eq]
    have h2 := good_if2 n
    have h3 := good_templateBlock n
    have h4 := good_templateArgument n
    apply consumes_pbind_opt
    · exact consumes_preceded_left (consumes_char _) (Good.sfx (by good))
    · intro k
      exact Good.sfx (by simp only []; good)
    · simp only []
      apply consumes_pmap; apply consumes_mapRes
      rw [isNot_eq]; exact consumes_take1 _

theorem errNE_template (n : Nat) : ErrNE (template n) := by
  unfold template
  apply errNE_pmap
  apply errNE_seq noErr_spacelike.errNE
  apply errNE_seq
  · apply NoErr.errNE; apply noErr_many0
    exact consumes_delimited_left (consumes_tag (by decide +kernel)) (Good.sfx (by good)) (Good.sfx (by good))
  apply errNE_seq errNE_context
  apply errNE_seq noErr_opt.errNE
  apply errNE_seq
  · apply errNE_delimited errNE_context _ errNE_context
    apply NoErr.errNE; apply noErr_sepList0
    · exact consumes_terminated_left (consumes_tag (by decide +kernel)) good_multispace0.sfx
    · exact Good.sfx (by good)
  · exact errNE_manyTill errNE_context (consumes_context (consumes_templateExpression n))

/-! ### `show_errors` of a non-empty list prints something -/

theorem showError_ne_nil (buf : Bytes) (pos : Nat) (msg pfx : Bytes) : showError buf pos msg pfx ≠ [] := by
  unfold showError
  apply List.append_ne_nil_of_right_ne_nil
  decide +kernel

theorem showErrors_ne_nil (buf : Bytes) (es : Errs) (pfx : Bytes) (h : es ≠ []) :
    showErrors buf es pfx ≠ [] := by
  unfold showErrors
  have hr : es.reverse ≠ [] := by simpa using h
  cases hes : es.reverse with
  | nil => exact absurd hes hr
  | cons e l =>
    simp only [List.flatMap_cons]
    exact List.append_ne_nil_of_left_ne_nil (showError_ne_nil _ _ _ _) _

end Ructe
