import RucteModel.Tpl
import RucteProofs.ParserSound
import RucteProofs.Layout
import RucteProofs.ErrDiag
open Nom

/-!
# Lemmas about the individual arms of `template_expression`

* exact shape of `span` / `take1` / `isNot` results (soundness and completeness);
* which keyword the dispatcher after `@` returns and what it consumed (`headAlt_ok`);
* soundness of `commentTail` (the loop stops at the *first* `*@`);
* `node_shape`: a classification of every successful result of `templateExpression (n+1)`.
-/
namespace Ructe.Nodes

variable {α β : Type}

/-! ## string constants -/

theorem str_colon : str ":" = [58] := by decide +kernel
theorem str_lb : str "{" = [123] := by decide +kernel
theorem str_rb : str "}" = [125] := by decide +kernel
theorem str_lp : str "(" = [40] := by decide +kernel
theorem str_if : str "if" = [105, 102] := by decide +kernel
theorem str_for : str "for" = [102, 111, 114] := by decide +kernel
theorem str_match : str "match" = [109, 97, 116, 99, 104] := by decide +kernel
theorem str_sp : str " " = [32] := by decide +kernel
theorem str_set : str "@{}" = [64, 123, 125] := by decide +kernel

/-! ## inversion lemmas for the combinators -/

theorem orElse_ok {p q : Parser α} {i r v} (h : orElse p q i = .ok r v) :
    p i = .ok r v ∨ q i = .ok r v := by
  unfold orElse at h
  split at h
  · exact .inr h
  · exact .inl h

theorem context_ok {p : Parser α} {msg : String} {i r v} (h : context msg p i = .ok r v) :
    p i = .ok r v := by
  unfold context at h
  split at h
  · simp at h
  · exact h

theorem pnot_ok {p : Parser α} {i r v} (h : pnot p i = .ok r v) : r = i ∧ ∃ e, p i = .err e := by
  unfold pnot at h
  split at h <;> try simp at h
  next e he => exact ⟨h.symm, e, he⟩

theorem pbind_ok {p : Parser α} {f : α → Parser β} {i r v} (h : pbind p f i = .ok r v) :
    ∃ r1 a, p i = .ok r1 a ∧ f a r1 = .ok r v := by
  unfold pbind at h
  split at h <;> try simp at h
  next r1 a h1 => exact ⟨r1, a, h1, h⟩

theorem opt_ok {p : Parser α} {i r o} (h : opt p i = .ok r o) :
    (∃ v, o = some v ∧ p i = .ok r v) ∨ (o = none ∧ r = i) := by
  unfold opt at h
  split at h <;> try simp at h
  · next r' v' hp => exact .inl ⟨v', h.2.symm, h.1 ▸ hp⟩
  · exact .inr ⟨h.2.symm, h.1.symm⟩

theorem preceded_ok {p : Parser α} {q : Parser β} {i r v} (h : preceded p q i = .ok r v) :
    ∃ r1 a, p i = .ok r1 a ∧ q r1 = .ok r v := by
  unfold preceded at h
  obtain ⟨w, hw, rfl⟩ := pmap_ok h
  obtain ⟨r1, h1, h2⟩ := seq_ok hw
  exact ⟨r1, w.1, h1, h2⟩

theorem terminated_ok {p : Parser α} {q : Parser β} {i r v} (h : terminated p q i = .ok r v) :
    ∃ r1 b, p i = .ok r1 v ∧ q r1 = .ok r b := by
  unfold terminated at h
  obtain ⟨w, hw, rfl⟩ := pmap_ok h
  obtain ⟨r1, h1, h2⟩ := seq_ok hw
  exact ⟨r1, w.2, h1, h2⟩

/-! ## `span`, `take1`, `isNot`: exact results -/

theorem span_fst_all (p : UInt8 → Bool) (inp : Bytes) : (span p inp).1.all p = true := by
  induction inp with
  | nil => simp [span]
  | cons b r ih =>
    simp only [span]
    split
    · next hb => simp [hb]; simpa using ih
    · simp

theorem span_snd_head (p : UInt8 → Bool) (inp : Bytes) :
    ∀ b r, (span p inp).2 = b :: r → p b = false := by
  induction inp with
  | nil => intro b r h; simp [span] at h
  | cons c x ih =>
    intro b r h
    simp only [span] at h
    split at h
    · exact ih b r (by simpa using h)
    · next hc =>
      simp at h
      rw [← h.1]; simpa using hc

/-- `take1 p` returns the maximal non-empty run of bytes satisfying `p` -/
theorem take1_spec {p : UInt8 → Bool} {inp r v : Bytes} (h : take1 p inp = .ok r v) :
    inp = v ++ r ∧ v ≠ [] ∧ v.all p = true ∧ ∀ b r', r = b :: r' → p b = false := by
  obtain ⟨h1, h2⟩ := take1_ok h
  unfold take1 at h
  split at h
  · simp at h
  · next a r' _ heq =>
    injection h with e1 e2
    subst e1 e2
    have ha := span_fst_all p inp
    have hr := span_snd_head p inp
    rw [heq] at ha hr
    exact ⟨h1, h2, ha, hr⟩

theorem take1_complete (p : UInt8 → Bool) (t rest : Bytes) (ht : t ≠ []) (hp : t.all p = true)
    (hr : ∀ b r, rest = b :: r → p b = false) : take1 p (t ++ rest) = .ok rest t := by
  have hs : span p (t ++ rest) = (t, rest) := by
    rw [span_all p t rest hp, span_stop p rest hr]; simp
  cases t with
  | nil => exact absurd rfl ht
  | cons c t =>
    rw [List.cons_append] at hs
    simp [take1, hs]

/-! ## the dispatcher after `@` -/

/-- the `alt` after `@` with the string constants evaluated -/
def headAlt : Parser Bytes :=
  alt [tag [42], tag [58], tag [64], tag [123], tag [125], tag [40],
    terminated (alt [tag [105, 102], tag [102, 111, 114], tag [109, 97, 116, 99, 104]]) (tag [32]),
    value [] (tag [])]

theorem headAlt_eq : alt [
      tagS "*", tagS ":", tagS "@", tagS "{", tagS "}", tagS "(",
      terminated (alt [tagS "if", tagS "for", tagS "match"]) (tagS " "),
      value [] (tag [])] = headAlt := by
  simp only [headAlt, tagS, str_star, str_colon, str_at, str_lb, str_rb, str_lp, str_if, str_for,
    str_match, str_sp]

/-- which keyword the dispatcher returns, and what it consumed -/
theorem headAlt_ok {i r k : Bytes} (h : headAlt i = .ok r k) :
    (k = [42] ∧ i = 42 :: r) ∨ (k = [58] ∧ i = 58 :: r) ∨ (k = [64] ∧ i = 64 :: r) ∨
    (k = [123] ∧ i = 123 :: r) ∨ (k = [125] ∧ i = 125 :: r) ∨ (k = [40] ∧ i = 40 :: r) ∨
    (k = [105, 102] ∧ i = 105 :: 102 :: 32 :: r) ∨
    (k = [102, 111, 114] ∧ i = 102 :: 111 :: 114 :: 32 :: r) ∨
    (k = [109, 97, 116, 99, 104] ∧ i = 109 :: 97 :: 116 :: 99 :: 104 :: 32 :: r) ∨
    (k = [] ∧ i = r) := by
  unfold headAlt at h
  simp only [alt] at h
  rcases orElse_ok h with h | h
  · obtain ⟨e1, e2⟩ := tag_ok h; simp [e1, e2]
  rcases orElse_ok h with h | h
  · obtain ⟨e1, e2⟩ := tag_ok h; simp [e1, e2]
  rcases orElse_ok h with h | h
  · obtain ⟨e1, e2⟩ := tag_ok h; simp [e1, e2]
  rcases orElse_ok h with h | h
  · obtain ⟨e1, e2⟩ := tag_ok h; simp [e1, e2]
  rcases orElse_ok h with h | h
  · obtain ⟨e1, e2⟩ := tag_ok h; simp [e1, e2]
  rcases orElse_ok h with h | h
  · obtain ⟨e1, e2⟩ := tag_ok h; simp [e1, e2]
  rcases orElse_ok h with h | h
  · obtain ⟨r1, b, h1, h2⟩ := terminated_ok h
    obtain ⟨e3, _⟩ := tag_ok h2
    rcases orElse_ok h1 with h1 | h1
    · obtain ⟨e1, e2⟩ := tag_ok h1; simp [e1, e2, e3]
    rcases orElse_ok h1 with h1 | h1
    · obtain ⟨e1, e2⟩ := tag_ok h1; simp [e1, e2, e3]
    · obtain ⟨e1, e2⟩ := tag_ok h1; simp [e1, e2, e3]
  · obtain ⟨w, hw, e⟩ := pmap_ok h
    obtain ⟨e1, _⟩ := tag_ok hw
    simp [e, e1]

/-! ## soundness of `commentTail` -/

theorem commentStep_ok {x r : Bytes} {v : Unit} (h : commentStep x = .ok r v) :
    (∃ a, x = a ++ r ∧ a.all notStar = true) ∨ (x = 42 :: r ∧ ∀ t, r ≠ 64 :: t) := by
  unfold commentStep at h
  simp only [alt] at h
  rcases orElse_ok h with h | h
  · obtain ⟨w, hw, _⟩ := pmap_ok h
    rw [isNot_eq_take1] at hw
    obtain ⟨h1, _, h3, _⟩ := take1_spec hw
    exact .inl ⟨w, h1, h3⟩
  · obtain ⟨w, hw, _⟩ := pmap_ok h
    obtain ⟨r1, b, h1, h2⟩ := terminated_ok hw
    obtain ⟨e1, _⟩ := tag_ok h1
    obtain ⟨e2, e, he⟩ := pnot_ok h2
    subst e2
    refine .inr ⟨by simpa using e1, ?_⟩
    intro t ht
    subst ht
    simp [tag, isPrefix] at he

theorem noStarAt_append_notStar (a r : Bytes) (ha : a.all notStar = true) :
    noStarAt (a ++ r) = noStarAt r := by
  induction a with
  | nil => rfl
  | cons c a ih =>
    simp only [List.all_cons, Bool.and_eq_true] at ha
    have hc : c ≠ 42 := by
      intro hc; subst hc
      exact absurd ha.1 (by decide)
    rw [List.cons_append, noStarAt_cons_ne _ _ hc, ih ha.2]

/-- when the comment loop stops in front of `*@ rest`, everything it skipped contains no `*@`,
not even one that ends with the `*` of the terminator -/
theorem many0Go_commentStep_sound (rest : Bytes) :
    ∀ n x acc vs, many0Go commentStep n x acc = .ok (42 :: 64 :: rest) vs →
      ∃ body, x = body ++ 42 :: 64 :: rest ∧ noStarAt (body ++ [42]) = true := by
  intro n
  induction n with
  | zero => intro x acc vs h; simp [many0Go] at h
  | succ n ih =>
    intro x acc vs h
    simp only [many0Go] at h
    split at h
    · injection h with h1 _
      exact ⟨[], by simpa using h1, by decide⟩
    · simp at h
    · simp at h
    · next r1 v1 hstep =>
      split at h
      · simp at h
      · obtain ⟨body, hb, hn⟩ := ih _ _ _ h
        rcases commentStep_ok hstep with ⟨a, ha, hall⟩ | ⟨hx, hne⟩
        · refine ⟨a ++ body, by rw [ha, hb]; simp, ?_⟩
          rw [List.append_assoc, noStarAt_append_notStar _ _ hall]
          exact hn
        · refine ⟨42 :: body, by rw [hx, hb]; simp, ?_⟩
          have hne' : ∀ t, body ++ [42] ≠ 64 :: t := by
            intro t ht
            cases body with
            | nil => simp at ht
            | cons d body =>
              simp at ht
              exact hne (body ++ 42 :: 64 :: rest) (by rw [hb, ← ht.1]; simp)
          rw [List.cons_append, noStarAt_star_ne _ hne']
          exact hn

/-- **soundness of `comment_tail`**: it stops at the first `*@` -/
theorem commentTail_sound {x rest : Bytes} {u : Unit} (h : commentTail x = .ok rest u) :
    ∃ body, x = body ++ [42, 64] ++ rest ∧ noStarAt (body ++ [42]) = true := by
  rw [commentTail_eq] at h
  obtain ⟨r1, vs, h1, h2⟩ := preceded_ok h
  obtain ⟨w, hw, _⟩ := pmap_ok h2
  obtain ⟨e1, _⟩ := tag_ok hw
  subst e1
  obtain ⟨body, hb, hn⟩ := many0Go_commentStep_sound rest _ _ _ _ h1
  exact ⟨body, by simpa using hb, hn⟩

/-! ## classification of the results of `template_expression` -/

theorem if2_kind (n : Nat) {i rest : Bytes} {e : TExpr} (h : if2 n i = .ok rest e) :
    ∃ a b c, e = .ifBlock a b c := by
  cases n with
  | zero => simp [if2] at h
  | succ n =>
    rw [if2] at h
    obtain ⟨w, _, hw⟩ := pmap_ok (context_ok h)
    obtain ⟨a, b, c⟩ := w
    exact ⟨a, b, c, hw⟩

/-- every successful `template_expression` is exactly one of: a run of plain text, one of the three
escapes, a comment (with its tail parsed by `commentTail`), or a node of one of the other kinds -/
theorem node_shape (n : Nat) {inp rest : Bytes} {e : TExpr}
    (h : templateExpression (n + 1) inp = .ok rest e) :
    (∃ t, e = .text t ∧ mapRes (isNot [64, 123, 125]) toStr inp = .ok rest t) ∨
    (e = .text [64] ∧ inp = 64 :: 64 :: rest) ∨
    (e = .text [123] ∧ inp = 64 :: 123 :: rest) ∨
    (e = .text [125] ∧ inp = 64 :: 125 :: rest) ∨
    (e = .comment ∧ ∃ x, inp = 64 :: 42 :: x ∧ commentTail x = .ok rest ()) ∨
    (∃ a b, e = .call a b) ∨ (∃ a b c, e = .ifBlock a b c) ∨ (∃ a b c, e = .forLoop a b c) ∨
    (∃ a b, e = .matchBlock a b) ∨ (∃ a, e = .expr a) := by
  rw [templateExpression_eq, headAlt_eq] at h
  obtain ⟨i, o, ho, hf⟩ := pbind_ok h
  rcases opt_ok ho with ⟨k, rfl, hk⟩ | ⟨rfl, rfl⟩
  · obtain ⟨x, c, hc, hh⟩ := preceded_ok hk
    obtain ⟨hinp, _⟩ := char_ok hc
    subst hinp
    simp only [str_colon, str_at, str_lb, str_rb, str_star, str_if, str_for, str_match, str_lp] at hf
    clear h hk ho hc
    rcases headAlt_ok hh with ⟨rfl, rfl⟩ | ⟨rfl, rfl⟩ | ⟨rfl, rfl⟩ | ⟨rfl, rfl⟩ | ⟨rfl, rfl⟩ |
      ⟨rfl, rfl⟩ | ⟨rfl, rfl⟩ | ⟨rfl, rfl⟩ | ⟨rfl, rfl⟩ | ⟨rfl, rfl⟩
    · -- `@*`
      simp at hf
      obtain ⟨w, hw, rfl⟩ := pmap_ok hf
      exact .inr (.inr (.inr (.inr (.inl ⟨rfl, i, rfl, hw⟩))))
    · -- `@:`
      simp at hf
      obtain ⟨w, _, rfl⟩ := pmap_ok hf
      obtain ⟨a, b⟩ := w
      exact .inr (.inr (.inr (.inr (.inr (.inl ⟨a, b, rfl⟩)))))
    · -- `@@`
      simp at hf
      obtain ⟨rfl, rfl⟩ := hf
      exact .inr (.inl ⟨rfl, rfl⟩)
    · -- `@{`
      simp at hf
      obtain ⟨rfl, rfl⟩ := hf
      exact .inr (.inr (.inl ⟨rfl, rfl⟩))
    · -- `@}`
      simp at hf
      obtain ⟨rfl, rfl⟩ := hf
      exact .inr (.inr (.inr (.inl ⟨rfl, rfl⟩)))
    · -- `@(`
      simp at hf
      obtain ⟨w, _, rfl⟩ := pmap_ok hf
      exact .inr (.inr (.inr (.inr (.inr (.inr (.inr (.inr (.inr ⟨_, rfl⟩))))))))
    · -- `@if `
      simp at hf
      exact .inr (.inr (.inr (.inr (.inr (.inr (.inl (if2_kind n hf)))))))
    · -- `@for `
      simp at hf
      obtain ⟨w, _, rfl⟩ := pmap_ok hf
      obtain ⟨a, b, c⟩ := w
      exact .inr (.inr (.inr (.inr (.inr (.inr (.inr (.inl ⟨a, b, c, rfl⟩)))))))
    · -- `@match `
      simp at hf
      obtain ⟨w, _, rfl⟩ := pmap_ok (context_ok hf)
      obtain ⟨a, b⟩ := w
      exact .inr (.inr (.inr (.inr (.inr (.inr (.inr (.inr (.inl ⟨a, b, rfl⟩))))))))
    · -- `@` expression
      simp at hf
      obtain ⟨w, _, rfl⟩ := pmap_ok hf
      exact .inr (.inr (.inr (.inr (.inr (.inr (.inr (.inr (.inr ⟨_, rfl⟩))))))))
  · -- plain text
    simp only [str_set] at hf
    obtain ⟨t, ht, rfl⟩ := pmap_ok hf
    exact .inl ⟨t, rfl, ht⟩

end Ructe.Nodes
