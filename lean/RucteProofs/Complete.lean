import RucteModel.Expr
import RucteProofs.ParserSound
import RucteProofs.Layout
import RucteProofs.FuelMono

/-! Completeness lemmas for the parsers of `expression.rs` (used by `RucteProps/C05Complete.lean`). -/
namespace Ructe
open Nom

/-! ## byte enumeration -/

theorem forall_u8 (P : UInt8 → Bool) (h : ∀ n, n < 256 → P n.toUInt8 = true) : ∀ b, P b = true := by
  intro b
  have := h b.toNat (UInt8.toNat_lt b)
  simpa using this

theorem nameChars_contains (b : UInt8) :
    nameChars.contains b = (isAlpha b || isDigit b || decide (b = 95)) := by
  have := forall_u8 (fun b => nameChars.contains b == (isAlpha b || isDigit b || decide (b = 95)))
    (by decide +kernel) b
  simpa using this

theorem str_us : str "_" = [95] := by decide +kernel
theorem str_slashStar : str "/*" = [47, 42] := by decide +kernel
theorem str_starSlash : str "*/" = [42, 47] := by decide +kernel
theorem str_slash : str "/" = [47] := by decide +kernel
theorem str_quoteBs : str "\"\\" = [34, 92] := by decide +kernel
theorem str_escapable : str "'\"\\nrt0xu" = [39, 34, 92, 110, 114, 116, 48, 120, 117] := by decide +kernel
theorem str_lpar : str "(" = [40] := by decide +kernel
theorem str_rpar : str ")" = [41] := by decide +kernel
theorem str_lbrk : str "[" = [91] := by decide +kernel
theorem str_rbrk : str "]" = [93] := by decide +kernel
theorem str_lbrc : str "{" = [123] := by decide +kernel
theorem str_rbrc : str "}" = [125] := by decide +kernel
theorem str_setB : str "[]()\"/" = [91, 93, 40, 41, 34, 47] := by decide +kernel
theorem str_setC : str "{}[]()\"/" = [123, 125, 91, 93, 40, 41, 34, 47] := by decide +kernel
theorem str_dot : str "." = [46] := by decide +kernel
theorem str_colons : str "::" = [58, 58] := by decide +kernel
theorem str_bang : str "!" = [33] := by decide +kernel
theorem str_amp : str "&" = [38] := by decide +kernel

/-! ## UTF-8 -/

theorem validUtf8_nil : validUtf8 [] = true := rfl

theorem validUtf8_cons (b : UInt8) (r : Bytes) : validUtf8 (b :: r) =
    if b < 0x80 then validUtf8 r
    else if 0xC2 ≤ b && b ≤ 0xDF then
      match r with
      | c :: r' => isCont c && validUtf8 r'
      | _ => false
    else if 0xE0 ≤ b && b ≤ 0xEF then
      match r with
      | c :: d :: r' =>
        (if b = 0xE0 then 0xA0 ≤ c && c ≤ 0xBF else if b = 0xED then 0x80 ≤ c && c ≤ 0x9F else isCont c)
          && isCont d && validUtf8 r'
      | _ => false
    else if 0xF0 ≤ b && b ≤ 0xF4 then
      match r with
      | c :: d :: e :: r' =>
        (if b = 0xF0 then 0x90 ≤ c && c ≤ 0xBF else if b = 0xF4 then 0x80 ≤ c && c ≤ 0x8F else isCont c)
          && isCont d && isCont e && validUtf8 r'
      | _ => false
    else false := by
  rw [validUtf8.eq_def]; rfl

theorem validUtf8_cons_ascii (b : UInt8) (r : Bytes) (hb : b < 0x80) : validUtf8 (b :: r) = validUtf8 r := by
  rw [validUtf8_cons]; simp [hb]

theorem validUtf8_ascii (l : Bytes) (h : ∀ b ∈ l, b < 0x80) : validUtf8 l = true := by
  induction l with
  | nil => rfl
  | cons b l ih =>
    rw [validUtf8_cons_ascii _ _ (h b (by simp))]
    exact ih (fun c hc => h c (by simp [hc]))

theorem isCont_ascii {c : UInt8} (h : c < 0x80) : isCont c = false := by
  grind [isCont]

/-- an ASCII byte is a boundary of the UTF-8 decoding -/
theorem validUtf8_split (a : Bytes) (c : UInt8) (b : Bytes) (hc : c < 0x80) :
    validUtf8 (a ++ c :: b) = (validUtf8 a && validUtf8 b) := by
  have hcont := isCont_ascii hc
  have h1 : ¬ (0x80 ≤ c) := by grind
  have h2 : ¬ (0xA0 ≤ c) := by grind
  have h3 : ¬ (0x90 ≤ c) := by grind
  fun_induction validUtf8 a with
  | case1 => simp [validUtf8_cons_ascii, hc]
  | case2 b0 r hb ih => simp [validUtf8_cons_ascii, hb, ih]
  | case3 b0 hb hb2 c1 r' ih => simp [validUtf8_cons, hb, hb2, ih, Bool.and_assoc]
  | case4 b0 r hb hb2 hr =>
    cases r with
    | nil => simp [validUtf8_cons, hb, hb2, hcont]
    | cons x r => exact absurd rfl (hr x r)
  | case5 b0 hb hb2 hb3 c1 d r' ih => simp [validUtf8_cons, hb, hb2, hb3, ih, Bool.and_assoc]
  | case6 b0 r hb hb2 hb3 hr =>
    match r, hr with
    | [], _ =>
      cases b <;> simp [validUtf8_cons, hb, hb2, hb3, hcont, h1, h2]
    | [x], _ => simp [validUtf8_cons, hb, hb2, hb3, hcont]
    | x :: y :: r, hr => exact absurd rfl (hr x y r)
  | case7 b0 hb hb2 hb3 hb4 c1 d e r' ih => simp [validUtf8_cons, hb, hb2, hb3, hb4, ih, Bool.and_assoc]
  | case8 b0 r hb hb2 hb3 hb4 hr =>
    match r, hr with
    | [], _ =>
      match b with
      | [] => simp [validUtf8_cons, hb, hb2, hb3, hb4]
      | [_] => simp [validUtf8_cons, hb, hb2, hb3, hb4]
      | _ :: _ :: _ => simp [validUtf8_cons, hb, hb2, hb3, hb4, hcont, h1, h3]
    | [x], _ =>
      cases b <;> simp [validUtf8_cons, hb, hb2, hb3, hb4, hcont]
    | [x, y], _ => simp [validUtf8_cons, hb, hb2, hb3, hb4, hcont]
    | x :: y :: z :: r, hr => exact absurd rfl (hr x y z r)
  | case9 b0 r hb hb2 hb3 hb4 => simp [validUtf8_cons, hb, hb2, hb3, hb4]

/-! ## generic parser facts -/

theorem take_consumed (a r : Bytes) : (a ++ r).take ((a ++ r).length - r.length) = a := by
  simp

theorem recognize_ok_of {α} {p : Parser α} {a r : Bytes} {v : α} (h : p (a ++ r) = .ok r v) :
    recognize p (a ++ r) = .ok r a := by
  simp only [recognize, h, take_consumed]

theorem mapRes_toStr_of {p : Parser Bytes} {inp r a : Bytes} (h : p inp = .ok r a) (hv : validUtf8 a = true) :
    mapRes p toStr inp = .ok r a := by
  simp [mapRes, h, toStr, hv]

theorem seq_of {α β} {p : Parser α} {q : Parser β} {inp r r' : Bytes} {a : α} {b : β}
    (hp : p inp = .ok r a) (hq : q r = .ok r' b) : seq p q inp = .ok r' (a, b) := by
  simp only [seq, hp, hq]

theorem seq_err_left {α β} {p : Parser α} {q : Parser β} {inp : Bytes} {e : Errs}
    (hp : p inp = .err e) : seq p q inp = .err e := by
  simp only [seq, hp]

theorem seq_err_right {α β} {p : Parser α} {q : Parser β} {inp r : Bytes} {a : α} {e : Errs}
    (hp : p inp = .ok r a) (hq : q r = .err e) : seq p q inp = .err e := by
  simp only [seq, hp, hq]

theorem preceded_of {α β} {p : Parser α} {q : Parser β} {inp r r' : Bytes} {a : α} {b : β}
    (hp : p inp = .ok r a) (hq : q r = .ok r' b) : preceded p q inp = .ok r' b := by
  simp only [preceded, pmap, seq_of hp hq]

theorem preceded_err_left {α β} {p : Parser α} {q : Parser β} {inp : Bytes} {e : Errs}
    (hp : p inp = .err e) : preceded p q inp = .err e := by
  simp only [preceded, pmap, seq_err_left hp]

theorem preceded_err_right {α β} {p : Parser α} {q : Parser β} {inp r : Bytes} {a : α} {e : Errs}
    (hp : p inp = .ok r a) (hq : q r = .err e) : preceded p q inp = .err e := by
  simp only [preceded, pmap, seq_err_right hp hq]

theorem terminated_of {α β} {p : Parser α} {q : Parser β} {inp r r' : Bytes} {a : α} {b : β}
    (hp : p inp = .ok r a) (hq : q r = .ok r' b) : terminated p q inp = .ok r' a := by
  simp only [terminated, pmap, seq_of hp hq]

theorem terminated_err_left {α β} {p : Parser α} {q : Parser β} {inp : Bytes} {e : Errs}
    (hp : p inp = .err e) : terminated p q inp = .err e := by
  simp only [terminated, pmap, seq_err_left hp]

theorem terminated_err_right {α β} {p : Parser α} {q : Parser β} {inp r : Bytes} {a : α} {e : Errs}
    (hp : p inp = .ok r a) (hq : q r = .err e) : terminated p q inp = .err e := by
  simp only [terminated, pmap, seq_err_right hp hq]

theorem delimited_of {α β γ} {p : Parser α} {q : Parser β} {s : Parser γ} {inp r r' r'' : Bytes}
    {a : α} {b : β} {c : γ}
    (hp : p inp = .ok r a) (hq : q r = .ok r' b) (hs : s r' = .ok r'' c) :
    delimited p q s inp = .ok r'' b :=
  preceded_of hp (terminated_of hq hs)

theorem delimited_err_left {α β γ} {p : Parser α} {q : Parser β} {s : Parser γ} {inp : Bytes} {e : Errs}
    (hp : p inp = .err e) : delimited p q s inp = .err e :=
  preceded_err_left hp

theorem value_of {α β} {p : Parser α} {inp r : Bytes} {a : α} (v : β) (hp : p inp = .ok r a) :
    value v p inp = .ok r v := by
  simp only [value, pmap, hp]

theorem value_err {α β} {p : Parser α} {inp : Bytes} {e : Errs} (v : β) (hp : p inp = .err e) :
    value v p inp = .err e := by
  simp only [value, pmap, hp]

theorem mapRes_err {α β} {p : Parser α} {f : α → Option β} {inp : Bytes} {e : Errs} (hp : p inp = .err e) :
    mapRes p f inp = .err e := by
  simp only [mapRes, hp]

theorem recognize_err {α} {p : Parser α} {inp : Bytes} {e : Errs} (hp : p inp = .err e) :
    recognize p inp = .err e := by
  simp only [recognize, hp]

theorem orElse_err {α} {p q : Parser α} {inp : Bytes} {e : Errs} (hp : p inp = .err e) :
    orElse p q inp = q inp := by
  simp only [orElse, hp]

theorem orElse_ok {α} {p q : Parser α} {inp r : Bytes} {a : α} (hp : p inp = .ok r a) :
    orElse p q inp = .ok r a := by
  simp only [orElse, hp]

theorem alt_cons_err {α} {p q : Parser α} {ps : List (Parser α)} {inp : Bytes} {e : Errs}
    (hp : p inp = .err e) : alt (p :: q :: ps) inp = alt (q :: ps) inp := by
  simp only [alt, orElse, hp]

theorem alt_cons_ok {α} {p q : Parser α} {ps : List (Parser α)} {inp r : Bytes} {a : α}
    (hp : p inp = .ok r a) : alt (p :: q :: ps) inp = .ok r a := by
  simp only [alt, orElse, hp]

theorem alt_one {α} (p : Parser α) : alt [p] = p := rfl

theorem isPrefix_append (t r : Bytes) : isPrefix t (t ++ r) = some r := by
  induction t with
  | nil => cases r <;> rfl
  | cons c t ih => simp [isPrefix, ih]

theorem tag_append (t r : Bytes) : tag t (t ++ r) = .ok r t := by
  simp only [tag, isPrefix_append]

theorem tag_cons_ne (c b : UInt8) (t r : Bytes) (h : c ≠ b) : tag (c :: t) (b :: r) = .err [] := by
  simp [tag, isPrefix, h]

theorem tag_nil_inp (c : UInt8) (t : Bytes) : tag (c :: t) [] = .err [] := by
  simp [tag, isPrefix]

theorem tag_cons_eq (c : UInt8) (t r : Bytes) : tag (c :: t) (c :: r) = 
    match isPrefix t r with
    | some r' => .ok r' (c :: t)
    | none => .err [] := by
  simp only [tag, isPrefix, if_true]; rfl

theorem tag_one (c : UInt8) (r : Bytes) : tag [c] (c :: r) = .ok r [c] := by
  simp [tag, isPrefix]

/-- a run of `p`-bytes followed by a non-`p` byte (or the end) is exactly what `take1 p` takes;
`opt` makes the empty run succeed too -/
theorem opt_take1_run (p : UInt8 → Bool) (cs rest : Bytes) (hc : cs.all p = true)
    (hr : ∀ c r, rest = c :: r → p c = false) : ∃ v, opt (take1 p) (cs ++ rest) = .ok rest v := by
  have hs : span p (cs ++ rest) = (cs, rest) := by
    rw [span_all p cs rest hc, span_stop p rest hr]; simp
  cases cs with
  | nil => rw [List.nil_append] at hs ⊢; exact ⟨none, by simp [opt, take1, hs]⟩
  | cons c cs => exact ⟨some (c :: cs), by simp only [opt, take1, hs]⟩

/-- after a maximal `q`-run inside a `p`-run (`q ⊆ p`), what is left is still a `p`-run before `rest` -/
theorem span_sub_run (p q : UInt8 → Bool) (hqp : ∀ b, q b = true → p b = true) (cs rest : Bytes)
    (hc : cs.all p = true) (hr : ∀ c r, rest = c :: r → p c = false) :
    ∃ cs', (span q (cs ++ rest)).2 = cs' ++ rest ∧ cs'.all p = true := by
  induction cs with
  | nil =>
    refine ⟨[], ?_, rfl⟩
    have hq : ∀ c r, rest = c :: r → q c = false := by
      intro c r h
      cases hq : q c with
      | false => rfl
      | true => have := hqp c hq; rw [hr c r h] at this; exact absurd this (by simp)
    rw [List.nil_append, span_stop q rest hq]
  | cons c cs ih =>
    simp only [List.all_cons, Bool.and_eq_true] at hc
    cases hq : q c with
    | true =>
      rw [List.cons_append, span_cons_true q c _ hq]
      exact ih hc.2
    | false =>
      rw [List.cons_append, span_cons_false q c _ hq]
      exact ⟨c :: cs, rfl, by simp [hc.1, hc.2]⟩

/-! ## `rustName` -/

theorem isAlpha_nameChar (b : UInt8) (h : isAlpha b = true) : nameChars.contains b = true := by
  rw [nameChars_contains, h]; rfl

theorem nameChar_ascii (b : UInt8) (h : nameChars.contains b = true) : b < 0x80 := by
  rw [nameChars_contains] at h
  simp only [isAlpha, isDigit, Bool.or_eq_true, Bool.and_eq_true, decide_eq_true_eq] at h
  grind

theorem rustName_complete_gen (b : UInt8) (cs rest : Bytes) (hb : isAlpha b = true ∨ b = 95)
    (hc : cs.all (fun c => nameChars.contains c) = true)
    (hr : ∀ c r, rest = c :: r → nameChars.contains c = false) :
    rustName (b :: cs ++ rest) = .ok rest (b :: cs) := by
  have hv : validUtf8 (b :: cs) = true := by
    apply validUtf8_ascii
    intro c hcm
    apply nameChar_ascii
    rcases List.mem_cons.mp hcm with rfl | hcm
    · rcases hb with hb | rfl
      · exact isAlpha_nameChar _ hb
      · rw [nameChars_contains]; rfl
    · exact List.all_eq_true.mp hc c hcm
  unfold rustName
  apply mapRes_toStr_of _ hv
  rw [show b :: cs ++ rest = (b :: cs) ++ rest from rfl]
  have key : ∃ v, seq (alt [tag (str "_"), alpha1]) (opt (isA nameChars)) ((b :: cs) ++ rest) = .ok rest v := by
    rw [str_us, isA_eq]
    by_cases h95 : b = 95
    · subst h95
      obtain ⟨v, hv⟩ := opt_take1_run (fun c => nameChars.contains c) cs rest hc hr
      exact ⟨_, seq_of (a := [95]) (by simp only [alt, orElse, List.cons_append, tag_one]) hv⟩
    · have hal : isAlpha b = true := by
        rcases hb with hb | hb
        · exact hb
        · exact absurd hb h95
      obtain ⟨cs', hcs', hall⟩ := span_sub_run (fun c => nameChars.contains c) isAlpha
        isAlpha_nameChar cs rest hc hr
      obtain ⟨v, hv⟩ := opt_take1_run (fun c => nameChars.contains c) cs' rest hall hr
      have h1 : tag [95] (b :: (cs ++ rest)) = .err [] := tag_cons_ne _ _ _ _ (fun h => h95 h.symm)
      have ha : alt [tag [95], alpha1] (b :: cs ++ rest) =
          .ok (cs' ++ rest) (b :: (span isAlpha (cs ++ rest)).1) := by
        simp only [alt, orElse, List.cons_append, h1, alpha1, take1_cons_true isAlpha b _ hal, hcs']
      exact ⟨_, seq_of ha hv⟩
  obtain ⟨v, hk⟩ := key
  exact recognize_ok_of hk


/-! ## `rustComment` -/

/-- one iteration of the loop inside a block comment -/
def rcStep : Parser Bytes := alt [isNot [42], terminated (tag [42]) (pnot (tag [47]))]

theorem rustComment_eq :
    rustComment = delimited (tag [47, 42]) (recognize (many0 rcStep)) (tag [42, 47]) := by
  simp only [rustComment, rcStep, str_star, str_slash, str_slashStar, str_starSlash]

theorem rcStep_star (x : Bytes) (hx : ∀ r, x ≠ 47 :: r) : rcStep (42 :: x) = .ok x [42] := by
  have h1 : isNot [42] (42 :: x) = .err [] := isNot_cons_false _ _ _ (by decide)
  cases x with
  | nil => simp [rcStep, alt, orElse, pmap, terminated, seq, pnot, h1, tag, isPrefix]
  | cons c r =>
    have : ¬ (47 : UInt8) = c := fun h => hx r (by rw [h])
    simp [rcStep, alt, orElse, pmap, terminated, seq, pnot, h1, tag, isPrefix, this]

theorem rcStep_starSlash (rest : Bytes) : rcStep (42 :: 47 :: rest) = .err [] := by
  have h1 : isNot [42] (42 :: 47 :: rest) = .err [] := isNot_cons_false _ _ _ (by decide)
  simp [rcStep, alt, orElse, pmap, terminated, seq, pnot, h1, tag, isPrefix]

theorem rcStep_other (c : UInt8) (x : Bytes) (hc : c ≠ 42) :
    rcStep (c :: x) = .ok (span notStar x).2 (c :: (span notStar x).1) := by
  have h1 := isNot_cons_true [42] c x (by simp [hc])
  simp only [rcStep, alt, orElse, h1]

/-- the loop, started at `t` with enough fuel, ends at `T` -/
def RAbsorbs (T t : Bytes) : Prop :=
  ∀ n acc, t.length < n → ∃ vs, many0Go rcStep n t acc = .ok T vs

theorem rabsorbs_stop (rest : Bytes) : RAbsorbs (42 :: 47 :: rest) (42 :: 47 :: rest) := by
  intro n acc hn
  cases n with
  | zero => omega
  | succ n => exact ⟨_, many0Go_err (rcStep_starSlash rest) n acc⟩

theorem rabsorbs_star (T x : Bytes) (hx : ∀ r, x ≠ 47 :: r) (h : RAbsorbs T x) : RAbsorbs T (42 :: x) := by
  intro n acc hn
  cases n with
  | zero => omega
  | succ n =>
    rw [many0Go_ok (rcStep_star _ hx) (by simp)]
    exact h n _ (by simpa using hn)

theorem rabsorbs_other (T x : Bytes) (c : UInt8) (hc : c ≠ 42) (h : RAbsorbs T (span notStar x).2) :
    RAbsorbs T (c :: x) := by
  intro n acc hn
  cases n with
  | zero => omega
  | succ n =>
    have hl := span_snd_length notStar x
    rw [many0Go_ok (rcStep_other c _ hc) (by simp only [List.length_cons]; omega)]
    exact h n _ (by simp only [List.length_cons] at hn; omega)

/-- from the loop invariant to `rustComment` -/
theorem rustComment_of_loop (body rest : Bytes)
    (h : RAbsorbs (42 :: 47 :: rest) (body ++ 42 :: 47 :: rest)) :
    rustComment (47 :: 42 :: (body ++ 42 :: 47 :: rest)) = .ok rest body := by
  obtain ⟨vs, hvs⟩ := h _ [] (Nat.lt_succ_self _)
  have h1 : many0 rcStep (body ++ 42 :: 47 :: rest) = .ok (42 :: 47 :: rest) vs := hvs
  rw [rustComment_eq]
  exact delimited_of (tag_append [47, 42] _) (recognize_ok_of h1) (tag_append [42, 47] _)


/-! ## `quotedString` -/

abbrev escSet : Bytes := [39, 34, 92, 110, 114, 116, 48, 120, 117]
/-- bytes that `isNot "\"\\"` accepts -/
abbrev notQB : UInt8 → Bool := fun b => ![(34 : UInt8), 92].contains b

/-- the body scanner of a string literal -/
def qsBody : Parser Bytes := escaped (isNot [34, 92]) 92 (oneOf escSet)

theorem quotedString_eq :
    quotedString = mapRes (recognize (delimited (char 34) (opt qsBody) (char 34))) toStr := by
  simp only [quotedString, qsBody, str_quoteBs, str_escapable]

/-- the `escaped` loop over `input`, started at `i` with enough fuel, stops at `T` and returns the
bytes of `input` before `T` -/
def EAbsorbs (input T i : Bytes) : Prop :=
  T.length ≤ i.length ∧ ∀ n, i.length < n →
    escapedGo (isNot [34, 92]) 92 (oneOf escSet) input n i = .ok T (input.take (input.length - T.length))

theorem eabsorbs_stop (input rest : Bytes) (hidx : (34 :: rest).length < input.length) :
    EAbsorbs input (34 :: rest) (34 :: rest) := by
  refine ⟨Nat.le_refl _, ?_⟩
  intro n hn
  cases n with
  | zero => omega
  | succ n =>
    have h1 : isNot [34, 92] (34 :: rest) = .err [] := isNot_cons_false _ _ _ (by decide)
    have h2 : input.length - (rest.length + 1) ≠ 0 := by simp only [List.length_cons] at hidx; omega
    simp [escapedGo, h1, h2]

theorem eabsorbs_plain (input T X : Bytes) (b : UInt8) (hb : b ≠ 34 ∧ b ≠ 92) (hT : 0 < T.length)
    (h : EAbsorbs input T (span notQB X).2) : EAbsorbs input T (b :: X) := by
  have hl := span_snd_length notQB X
  refine ⟨by have := h.1; simp only [List.length_cons]; omega, ?_⟩
  intro n hn
  cases n with
  | zero => omega
  | succ n =>
    have h1 := isNot_cons_true [34, 92] b X (by simp [hb.1, hb.2])
    have h2 : (span notQB X).2.length ≠ 0 := by have := h.1; omega
    have h3 : (span notQB X).2.length ≠ X.length + 1 := by omega
    rw [escapedGo]
    simp only [List.length_cons, Nat.add_one_ne_zero, if_false, h1, h2, h3]
    exact h.2 n (by simp only [List.length_cons] at hn; omega)

theorem eabsorbs_esc (input T X : Bytes) (c : UInt8) (hc : escSet.contains c = true) (hT : 0 < T.length)
    (h : EAbsorbs input T X) : EAbsorbs input T (92 :: c :: X) := by
  refine ⟨by have := h.1; simp only [List.length_cons]; omega, ?_⟩
  intro n hn
  cases n with
  | zero => omega
  | succ n =>
    have h1 : isNot [34, 92] (92 :: c :: X) = .err [] := isNot_cons_false _ _ _ (by decide)
    have hca : c < 0x80 := by
      have : ∀ b ∈ escSet, b < 0x80 := by decide
      exact this c (by simpa using hc)
    have h2 : oneOf escSet (c :: X) = .ok X c := by simp only [oneOf, hc, if_true, satisfyAdvance, hca]
    have h3 : X.length ≠ 0 := by have := h.1; omega
    rw [escapedGo]
    simp only [List.length_cons, Nat.add_one_ne_zero, if_false, h1, h2, h3, if_true]
    have h4 : ¬ (1 ≥ X.length + 1 + 1) := by omega
    simp only [h4, if_false]
    exact h.2 n (by simp only [List.length_cons] at hn; omega)

theorem qsBody_empty (rest : Bytes) : qsBody (34 :: rest) = .err [] := by
  have h1 : isNot [34, 92] (34 :: rest) = .err [] := isNot_cons_false _ _ _ (by decide)
  simp [qsBody, escaped, escapedGo, h1]

theorem qsBody_of_loop (body rest : Bytes)
    (h : EAbsorbs (body ++ 34 :: rest) (34 :: rest) (body ++ 34 :: rest)) :
    qsBody (body ++ 34 :: rest) = .ok (34 :: rest) body := by
  have := h.2 _ (Nat.lt_succ_self _)
  simp only [qsBody, escaped, this]
  congr 1
  exact take_consumed body (34 :: rest)

theorem char_cons (c : UInt8) (r : Bytes) : char c (c :: r) = .ok r c := by
  simp [char]

theorem opt_of {α} {p : Parser α} {inp r : Bytes} {a : α} (h : p inp = .ok r a) :
    opt p inp = .ok r (some a) := by
  simp only [opt, h]

theorem opt_err {α} {p : Parser α} {inp : Bytes} {e : Errs} (h : p inp = .err e) :
    opt p inp = .ok inp none := by
  simp only [opt, h]

/-- from the body scanner to `quotedString` -/
theorem quotedString_of_body (body rest : Bytes) {v : Option Bytes}
    (h : opt qsBody (body ++ 34 :: rest) = .ok (34 :: rest) v)
    (hv : validUtf8 ([34] ++ body ++ [34]) = true) :
    quotedString ([34] ++ body ++ [34] ++ rest) = .ok rest ([34] ++ body ++ [34]) := by
  rw [quotedString_eq]
  apply mapRes_toStr_of _ hv
  apply recognize_ok_of (v := v)
  have e : [34] ++ body ++ [34] ++ rest = 34 :: (body ++ 34 :: rest) := by simp
  rw [e]
  exact delimited_of (char_cons 34 _) h (char_cons 34 _)


/-! ## the group scanners: one loop iteration -/

abbrev setC : Bytes := [123, 125, 91, 93, 40, 41, 34, 47]
abbrev setB : Bytes := [91, 93, 40, 41, 34, 47]
/-- bytes accepted by `isNot "{}[]()\"/"` resp. `isNot "[]()\"/"` -/
abbrev plainC : UInt8 → Bool := fun b => !setC.contains b
abbrev plainB : UInt8 → Bool := fun b => !setB.contains b

/-- `/` not followed by `*` -/
def slashP : Parser Bytes := terminated (tag [47]) (pnot (tag [42]))

/-- one iteration of the loop of `expr_inside_parens`, `expr_in_braces`, `expr_in_brackets` -/
def stepP (k : Nat) : Parser Unit := alt [
  value () (isNot setC), value () (exprInBraces k), value () (exprInBrackets k),
  value () (exprInParens k), value () quotedString, value () rustComment, value () slashP]
def stepC (k : Nat) : Parser Unit := alt [
  value () (isNot setC), value () (exprInBrackets k), value () (exprInBraces k),
  value () (exprInParens k), value () quotedString, value () rustComment, value () slashP]
def stepB (k : Nat) : Parser Unit := alt [
  value () (isNot setB), value () (exprInBrackets k), value () (exprInBraces k),
  value () (exprInParens k), value () quotedString, value () rustComment, value () slashP]

theorem exprInsideParens_eq (k : Nat) :
    exprInsideParens (k + 1) = mapRes (recognize (many0 (stepP k))) toStr := by
  simp only [exprInsideParens, stepP, slashP, str_setC, str_slash, str_star]

theorem exprInParens_eq (k : Nat) :
    exprInParens (k + 1) = mapRes (recognize (delimited (tag [40]) (exprInsideParens k) (tag [41]))) toStr := by
  simp only [exprInParens, str_lpar, str_rpar]

theorem exprInBraces_eq (k : Nat) :
    exprInBraces (k + 1) = mapRes (recognize (delimited (tag [123]) (many0 (stepC k)) (tag [125]))) toStr := by
  simp only [exprInBraces, stepC, slashP, str_setC, str_slash, str_star, str_lbrc, str_rbrc]

theorem exprInBrackets_eq (k : Nat) :
    exprInBrackets (k + 1) = mapRes (recognize (delimited (tag [91]) (many0 (stepB k)) (tag [93]))) toStr := by
  simp only [exprInBrackets, stepB, slashP, str_setB, str_slash, str_star, str_lbrk, str_rbrk]

/-! ### each alternative fails on a foreign first byte -/

theorem tag_one_ne (c : UInt8) (inp : Bytes) (h : ∀ x, inp ≠ c :: x) : tag [c] inp = .err [] := by
  cases inp with
  | nil => rfl
  | cons b x =>
    have : c ≠ b := fun e => h x (by rw [e])
    simp [tag, isPrefix, this]

theorem exprInParens_head (k : Nat) (inp : Bytes) (h : ∀ x, inp ≠ 40 :: x) :
    exprInParens (k + 1) inp = .err [] := by
  rw [exprInParens_eq]
  exact mapRes_err (recognize_err (delimited_err_left (tag_one_ne _ _ h)))

theorem exprInBraces_head (k : Nat) (inp : Bytes) (h : ∀ x, inp ≠ 123 :: x) :
    exprInBraces (k + 1) inp = .err [] := by
  rw [exprInBraces_eq]
  exact mapRes_err (recognize_err (delimited_err_left (tag_one_ne _ _ h)))

theorem exprInBrackets_head (k : Nat) (inp : Bytes) (h : ∀ x, inp ≠ 91 :: x) :
    exprInBrackets (k + 1) inp = .err [] := by
  rw [exprInBrackets_eq]
  exact mapRes_err (recognize_err (delimited_err_left (tag_one_ne _ _ h)))

theorem char_ne (c : UInt8) (inp : Bytes) (h : ∀ x, inp ≠ c :: x) :
    char c inp = .err [⟨inp.length, .chr c⟩] := by
  cases inp with
  | nil => rfl
  | cons b x =>
    have : b ≠ c := fun e => h x (by rw [e])
    simp [char, this]

theorem quotedString_head (inp : Bytes) (h : ∀ x, inp ≠ 34 :: x) :
    quotedString inp = .err [⟨inp.length, .chr 34⟩] := by
  rw [quotedString_eq]
  exact mapRes_err (recognize_err (delimited_err_left (char_ne _ _ h)))

theorem rustComment_head (inp : Bytes) (h : ∀ x, inp ≠ 47 :: 42 :: x) : rustComment inp = .err [] := by
  rw [rustComment_eq]
  apply delimited_err_left
  unfold tag
  cases hp : isPrefix [47, 42] inp with
  | none => rfl
  | some r => exact absurd (isPrefix_some hp) (h r)

theorem slashP_head (inp : Bytes) (h : ∀ x, inp ≠ 47 :: x) : slashP inp = .err [] :=
  terminated_err_left (tag_one_ne _ _ h)

theorem slashP_star (x : Bytes) : slashP (47 :: 42 :: x) = .err [] := by
  simp [slashP, terminated, pmap, seq, pnot, tag, isPrefix]

theorem slashP_ok (x : Bytes) (h : ∀ t, x ≠ 42 :: t) : slashP (47 :: x) = .ok x [47] := by
  have : tag [42] x = .err [] := tag_one_ne _ _ h
  simp [slashP, terminated, pmap, seq, pnot, tag_one, this]

theorem isNot_head (s : Bytes) (inp : Bytes) (h : ∀ b x, inp = b :: x → s.contains b = true) :
    isNot s inp = .err [] := by
  cases inp with
  | nil => simp [isNot, span]
  | cons b x => exact isNot_cons_false s b x (h b x rfl)


theorem exprInParens_cons (k : Nat) (b : UInt8) (x : Bytes) (h : b ≠ 40) :
    exprInParens (k + 1) (b :: x) = .err [] :=
  exprInParens_head k _ (fun _ e => h (List.cons.inj e).1)
theorem exprInBraces_cons (k : Nat) (b : UInt8) (x : Bytes) (h : b ≠ 123) :
    exprInBraces (k + 1) (b :: x) = .err [] :=
  exprInBraces_head k _ (fun _ e => h (List.cons.inj e).1)
theorem exprInBrackets_cons (k : Nat) (b : UInt8) (x : Bytes) (h : b ≠ 91) :
    exprInBrackets (k + 1) (b :: x) = .err [] :=
  exprInBrackets_head k _ (fun _ e => h (List.cons.inj e).1)
theorem quotedString_cons (b : UInt8) (x : Bytes) (h : b ≠ 34) :
    quotedString (b :: x) = .err [⟨x.length + 1, .chr 34⟩] :=
  quotedString_head _ (fun _ e => h (List.cons.inj e).1)
theorem rustComment_cons (b : UInt8) (x : Bytes) (h : b ≠ 47) : rustComment (b :: x) = .err [] :=
  rustComment_head _ (fun _ e => h (List.cons.inj e).1)
theorem slashP_cons (b : UInt8) (x : Bytes) (h : b ≠ 47) : slashP (b :: x) = .err [] :=
  slashP_head _ (fun _ e => h (List.cons.inj e).1)
theorem rustComment_slash (x : Bytes) (h : ∀ t, x ≠ 42 :: t) : rustComment (47 :: x) = .err [] :=
  rustComment_head _ (fun t e => h t (List.cons.inj e).2)

/-- what the main induction needs to know about one loop iteration `s` (at level `k`) whose plain
bytes are `pl` -/
structure StepSpec (s : Parser Unit) (pl : UInt8 → Bool) (k : Nat) : Prop where
  plain : ∀ b x, pl b = true → s (b :: x) = .ok (span pl x).2 ()
  pl_of : ∀ b, plainC b = true → pl b = true
  npl : pl 40 = false ∧ pl 91 = false ∧ pl 34 = false ∧ pl 47 = false
  parens : ∀ x r v, exprInParens k (40 :: x) = .ok r v → s (40 :: x) = .ok r ()
  brackets : ∀ x r v, exprInBrackets k (91 :: x) = .ok r v → s (91 :: x) = .ok r ()
  braces : pl 123 = false → ∀ x r v, exprInBraces k (123 :: x) = .ok r v → s (123 :: x) = .ok r ()
  brace_close : pl 123 = true → pl 125 = true
  quote : ∀ x r v, quotedString (34 :: x) = .ok r v → s (34 :: x) = .ok r ()
  comment : ∀ x r v, rustComment (47 :: 42 :: x) = .ok r v → s (47 :: 42 :: x) = .ok r ()
  slash : ∀ x, (∀ t, x ≠ 42 :: t) → s (47 :: x) = .ok x ()

theorem specP (k : Nat) : StepSpec (stepP (k + 1)) plainC (k + 1) where
  plain b x hb := by
    have h1 := isNot_cons_true setC b x (by simpa [plainC] using hb)
    exact alt_cons_ok (value_of () h1)
  pl_of _ h := h
  npl := by decide
  parens x r v h := by
    simp (disch := decide) [stepP, alt, orElse, value, pmap, isNot_cons_false, exprInBraces_cons,
      exprInBrackets_cons, h]
  brackets x r v h := by
    simp (disch := decide) [stepP, alt, orElse, value, pmap, isNot_cons_false, exprInBraces_cons, h]
  braces _ x r v h := by
    simp (disch := decide) [stepP, alt, orElse, value, pmap, isNot_cons_false, h]
  brace_close h := absurd h (by decide)
  quote x r v h := by
    simp (disch := decide) [stepP, alt, orElse, value, pmap, isNot_cons_false, exprInBraces_cons,
      exprInBrackets_cons, exprInParens_cons, h]
  comment x r v h := by
    simp (disch := decide) [stepP, alt, orElse, value, pmap, isNot_cons_false, exprInBraces_cons,
      exprInBrackets_cons, exprInParens_cons, quotedString_cons, h]
  slash x hx := by
    simp (disch := decide) [stepP, alt, orElse, value, pmap, isNot_cons_false, exprInBraces_cons,
      exprInBrackets_cons, exprInParens_cons, quotedString_cons, rustComment_slash x hx, slashP_ok x hx]


theorem specC (k : Nat) : StepSpec (stepC (k + 1)) plainC (k + 1) where
  plain b x hb := by
    have h1 := isNot_cons_true setC b x (by simpa [plainC] using hb)
    exact alt_cons_ok (value_of () h1)
  pl_of _ h := h
  npl := by decide
  parens x r v h := by
    simp (disch := decide) [stepC, alt, orElse, value, pmap, isNot_cons_false, exprInBraces_cons,
      exprInBrackets_cons, h]
  brackets x r v h := by
    simp (disch := decide) [stepC, alt, orElse, value, pmap, isNot_cons_false, h]
  braces _ x r v h := by
    simp (disch := decide) [stepC, alt, orElse, value, pmap, isNot_cons_false, exprInBrackets_cons, h]
  brace_close h := absurd h (by decide)
  quote x r v h := by
    simp (disch := decide) [stepC, alt, orElse, value, pmap, isNot_cons_false, exprInBraces_cons,
      exprInBrackets_cons, exprInParens_cons, h]
  comment x r v h := by
    simp (disch := decide) [stepC, alt, orElse, value, pmap, isNot_cons_false, exprInBraces_cons,
      exprInBrackets_cons, exprInParens_cons, quotedString_cons, h]
  slash x hx := by
    simp (disch := decide) [stepC, alt, orElse, value, pmap, isNot_cons_false, exprInBraces_cons,
      exprInBrackets_cons, exprInParens_cons, quotedString_cons, rustComment_slash x hx, slashP_ok x hx]

theorem specB (k : Nat) : StepSpec (stepB (k + 1)) plainB (k + 1) where
  plain b x hb := by
    have h1 := isNot_cons_true setB b x (by simpa [plainB] using hb)
    exact alt_cons_ok (value_of () h1)
  pl_of b h := by
    simp only [plainC, plainB, setC, setB, List.contains_cons, List.contains_nil, Bool.or_false,
      Bool.not_eq_true', Bool.or_eq_false_iff] at h ⊢
    exact h.2.2
  npl := by decide
  parens x r v h := by
    simp (disch := decide) [stepB, alt, orElse, value, pmap, isNot_cons_false, exprInBraces_cons,
      exprInBrackets_cons, h]
  brackets x r v h := by
    simp (disch := decide) [stepB, alt, orElse, value, pmap, isNot_cons_false, h]
  braces h := absurd h (by decide)
  brace_close _ := by decide
  quote x r v h := by
    simp (disch := decide) [stepB, alt, orElse, value, pmap, isNot_cons_false, exprInBraces_cons,
      exprInBrackets_cons, exprInParens_cons, h]
  comment x r v h := by
    simp (disch := decide) [stepB, alt, orElse, value, pmap, isNot_cons_false, exprInBraces_cons,
      exprInBrackets_cons, exprInParens_cons, quotedString_cons, h]
  slash x hx := by
    simp (disch := decide) [stepB, alt, orElse, value, pmap, isNot_cons_false, exprInBraces_cons,
      exprInBrackets_cons, exprInParens_cons, quotedString_cons, rustComment_slash x hx, slashP_ok x hx]

/-- each loop stops at its own closing delimiter -/
theorem stepP_stop (k : Nat) (x : Bytes) : stepP (k + 1) (41 :: x) = .err [] := by
  simp (disch := decide) [stepP, alt, orElse, value, pmap, isNot_cons_false, exprInBraces_cons,
    exprInBrackets_cons, exprInParens_cons, quotedString_cons, rustComment_cons, slashP_cons]
theorem stepC_stop (k : Nat) (x : Bytes) : stepC (k + 1) (125 :: x) = .err [] := by
  simp (disch := decide) [stepC, alt, orElse, value, pmap, isNot_cons_false, exprInBraces_cons,
    exprInBrackets_cons, exprInParens_cons, quotedString_cons, rustComment_cons, slashP_cons]
theorem stepB_stop (k : Nat) (x : Bytes) : stepB (k + 1) (93 :: x) = .err [] := by
  simp (disch := decide) [stepB, alt, orElse, value, pmap, isNot_cons_false, exprInBraces_cons,
    exprInBrackets_cons, exprInParens_cons, quotedString_cons, rustComment_cons, slashP_cons]

/-! ### the loop -/

/-- the loop over `s`, started at `t` with enough fuel, ends at `T` -/
def GAbsorbs (s : Parser Unit) (T t : Bytes) : Prop :=
  ∀ n acc, t.length < n → ∃ vs, many0Go s n t acc = .ok T vs

theorem gabsorbs_stop {s : Parser Unit} {T : Bytes} {e : Errs} (h : s T = .err e) : GAbsorbs s T T := by
  intro n acc hn
  cases n with
  | zero => omega
  | succ n => exact ⟨_, many0Go_err h n acc⟩

theorem gabsorbs_step {s : Parser Unit} {T t r : Bytes} (h : s t = .ok r ()) (hl : r.length < t.length)
    (hr : GAbsorbs s T r) : GAbsorbs s T t := by
  intro n acc hn
  cases n with
  | zero => omega
  | succ n =>
    rw [many0Go_ok h hl]
    exact hr n _ (by omega)

theorem gabsorbs_many0 {s : Parser Unit} {T t : Bytes} (h : GAbsorbs s T t) : ∃ vs, many0 s t = .ok T vs :=
  h _ [] (Nat.lt_succ_self _)

/-- the two-part loop invariant: from `t`, and from `t` after a plain run has been taken -/
def GInv (s : Parser Unit) (pl : UInt8 → Bool) (T t : Bytes) : Prop :=
  GAbsorbs s T t ∧ GAbsorbs s T (span pl t).2

/-- a plain byte in front -/
theorem ginv_plain {s : Parser Unit} {pl : UInt8 → Bool} {k : Nat} (hs : StepSpec s pl k) {T X : Bytes}
    (b : UInt8) (hb : pl b = true) (h : GAbsorbs s T (span pl X).2) : GInv s pl T (b :: X) := by
  refine ⟨gabsorbs_step (hs.plain b X hb) ?_ h, ?_⟩
  · have := span_snd_length pl X
    simp only [List.length_cons]; omega
  · rw [span_cons_true pl b X hb]; exact h

/-- a token (anything the step takes in one go, starting with a non-plain byte) in front -/
theorem ginv_token {s : Parser Unit} {pl : UInt8 → Bool} {T X : Bytes}
    (o : UInt8) (w : Bytes) (ho : pl o = false) (hstep : s (o :: (w ++ X)) = .ok X ())
    (h : GAbsorbs s T X) : GInv s pl T (o :: (w ++ X)) := by
  have : GAbsorbs s T (o :: (w ++ X)) := gabsorbs_step hstep (by simp; omega) h
  refine ⟨this, ?_⟩
  rw [span_cons_false pl o _ ho]; exact this

theorem ginv_stop {s : Parser Unit} {pl : UInt8 → Bool} {c : UInt8} {rest : Bytes} {e : Errs}
    (hc : pl c = false) (h : s (c :: rest) = .err e) : GInv s pl (c :: rest) (c :: rest) := by
  refine ⟨gabsorbs_stop h, ?_⟩
  rw [span_cons_false pl c _ hc]; exact gabsorbs_stop h


/-! ### from the loops to the group parsers -/

theorem validUtf8_wrap (o c : UInt8) (body : Bytes) (ho : o < 0x80) (hc : c < 0x80)
    (hv : validUtf8 body = true) : validUtf8 (o :: (body ++ [c])) = true := by
  rw [validUtf8_cons_ascii _ _ ho, validUtf8_split _ _ _ hc, hv]; rfl

theorem exprInsideParens_of_loop (k : Nat) (body rest : Bytes)
    (h : GAbsorbs (stepP k) (41 :: rest) (body ++ 41 :: rest)) (hv : validUtf8 body = true) :
    exprInsideParens (k + 1) (body ++ 41 :: rest) = .ok (41 :: rest) body := by
  obtain ⟨vs, hvs⟩ := gabsorbs_many0 h
  rw [exprInsideParens_eq]
  exact mapRes_toStr_of (recognize_ok_of hvs) hv

theorem exprInParens_of_inside (k : Nat) (body rest : Bytes)
    (h : exprInsideParens k (body ++ 41 :: rest) = .ok (41 :: rest) body) (hv : validUtf8 body = true) :
    exprInParens (k + 1) (40 :: (body ++ 41 :: rest)) = .ok rest (40 :: (body ++ [41])) := by
  rw [exprInParens_eq]
  apply mapRes_toStr_of _ (validUtf8_wrap 40 41 body (by decide) (by decide) hv)
  have e : 40 :: (body ++ 41 :: rest) = (40 :: (body ++ [41])) ++ rest := by simp
  rw [e]
  apply recognize_ok_of (v := body)
  rw [← e]
  exact delimited_of (tag_append [40] _) h (tag_append [41] _)

theorem exprInBraces_of_loop (k : Nat) (body rest : Bytes)
    (h : GAbsorbs (stepC k) (125 :: rest) (body ++ 125 :: rest)) (hv : validUtf8 body = true) :
    exprInBraces (k + 1) (123 :: (body ++ 125 :: rest)) = .ok rest (123 :: (body ++ [125])) := by
  obtain ⟨vs, hvs⟩ := gabsorbs_many0 h
  rw [exprInBraces_eq]
  apply mapRes_toStr_of _ (validUtf8_wrap 123 125 body (by decide) (by decide) hv)
  have e : 123 :: (body ++ 125 :: rest) = (123 :: (body ++ [125])) ++ rest := by simp
  rw [e]
  apply recognize_ok_of (v := vs)
  rw [← e]
  exact delimited_of (tag_append [123] _) hvs (tag_append [125] _)

theorem exprInBrackets_of_loop (k : Nat) (body rest : Bytes)
    (h : GAbsorbs (stepB k) (93 :: rest) (body ++ 93 :: rest)) (hv : validUtf8 body = true) :
    exprInBrackets (k + 1) (91 :: (body ++ 93 :: rest)) = .ok rest (91 :: (body ++ [93])) := by
  obtain ⟨vs, hvs⟩ := gabsorbs_many0 h
  rw [exprInBrackets_eq]
  apply mapRes_toStr_of _ (validUtf8_wrap 91 93 body (by decide) (by decide) hv)
  have e : 91 :: (body ++ 93 :: rest) = (91 :: (body ++ [93])) ++ rest := by simp
  rw [e]
  apply recognize_ok_of (v := vs)
  rw [← e]
  exact delimited_of (tag_append [91] _) hvs (tag_append [93] _)


/-- a token (anything the step takes in one go, starting with a non-plain byte) in front -/
theorem ginv_token' {s : Parser Unit} {pl : UInt8 → Bool} {T X : Bytes}
    (o : UInt8) (t : Bytes) (ho : pl o = false) (hstep : s (o :: t) = .ok X ())
    (hl : X.length < (o :: t).length) (h : GAbsorbs s T X) : GInv s pl T (o :: t) := by
  have : GAbsorbs s T (o :: t) := gabsorbs_step hstep hl h
  refine ⟨this, ?_⟩
  rw [span_cons_false pl o _ ho]; exact this


/-! ## `expression` -/

theorem tag_ne (c : UInt8) (t inp : Bytes) (h : ∀ x, inp ≠ c :: x) : tag (c :: t) inp = .err [] := by
  cases inp with
  | nil => rfl
  | cons b x =>
    have : c ≠ b := fun e => h x (by rw [e])
    simp [tag, isPrefix, this]

theorem tag_nil (inp : Bytes) : tag [] inp = .ok inp [] := by
  cases inp <;> rfl

theorem context_err {α} {p : Parser α} {inp : Bytes} {e : Errs} (msg : String) (h : p inp = .err e) :
    context msg p inp = .err (e ++ [⟨inp.length, .ctx msg⟩]) := by
  simp only [context, h]

theorem context_ok {α} {p : Parser α} {inp r : Bytes} {a : α} (msg : String) (h : p inp = .ok r a) :
    context msg p inp = .ok r a := by
  simp only [context, h]

/-- the atom of an expression -/
def exprAtom (n : Nat) : Parser Bytes :=
  alt [rustName, mapRes digit1 toStr, quotedString, exprInParens n, exprInBrackets n]

/-- one link of the chain that follows the atom -/
def chainStep (n : Nat) : Parser Unit := alt [
  value () (preceded (context "separator" (tag [46])) (expression n)),
  value () (preceded (tag [58, 58]) (expression n)),
  value () (exprInParens n), value () (exprInBraces n), value () (exprInBrackets n),
  value () (preceded (tag [33]) (exprInParens n)),
  value () (preceded (tag [33]) (exprInBrackets n))]

theorem chainStep_eq (n : Nat) : chainStep n = alt [
    value () (preceded (context "separator" (tag (str "."))) (expression n)),
    value () (preceded (tag (str "::")) (expression n)),
    value () (exprInParens n), value () (exprInBraces n), value () (exprInBrackets n),
    value () (preceded (tag (str "!")) (exprInParens n)),
    value () (preceded (tag (str "!")) (exprInBrackets n))] := by
  simp only [chainStep, str_dot, str_colons, str_bang]

theorem expression_eq (n : Nat) : expression (n + 1) =
    mapRes (recognize (context "Expected rust expression"
      (seq (alt [tag [38], tag [42], tag []]) (seq (exprAtom n) (foldMany0 (chainStep n)))))) toStr := by
  rw [expression, chainStep_eq]
  simp only [exprAtom, str_amp, str_star]

theorem rustName_head (inp : Bytes) (h : ∀ b x, inp = b :: x → isAlpha b = false ∧ b ≠ 95) :
    rustName inp = .err [] := by
  unfold rustName
  apply mapRes_err; apply recognize_err; apply seq_err_left
  rw [str_us]
  have h1 : tag [95] inp = .err [] := tag_ne _ _ _ (fun x e => (h 95 x e).2 rfl)
  have h2 : alpha1 inp = .err [] := take1_stop _ _ (fun b x e => (h b x e).1)
  simp only [alt, orElse, h1, h2]

theorem digit1_head (inp : Bytes) (h : ∀ b x, inp = b :: x → isDigit b = false) :
    mapRes digit1 toStr inp = .err [] :=
  mapRes_err (take1_stop _ _ h)

/-- a byte that can start neither an atom nor a prefix operator -/
def noExprStart (b : UInt8) : Bool :=
  !isAlpha b && !isDigit b && b != 95 && b != 38 && b != 42 && b != 34 && b != 40 && b != 91

theorem exprAtom_head (m : Nat) (inp : Bytes) (h : ∀ b x, inp = b :: x → noExprStart b = true) :
    exprAtom (m + 1) inp = .err [] := by
  have hh : ∀ b x, inp = b :: x → isAlpha b = false ∧ isDigit b = false ∧ b ≠ 95 ∧ b ≠ 38 ∧ b ≠ 42 ∧
      b ≠ 34 ∧ b ≠ 40 ∧ b ≠ 91 := by
    intro b x e
    have := h b x e
    simpa [noExprStart, and_assoc] using this
  have h1 := rustName_head inp (fun b x e => ⟨(hh b x e).1, (hh b x e).2.2.1⟩)
  have h2 := digit1_head inp (fun b x e => (hh b x e).2.1)
  have h3 := quotedString_head inp (fun x e => (hh 34 x e).2.2.2.2.2.1 rfl)
  have h4 := exprInParens_head m inp (fun x e => (hh 40 x e).2.2.2.2.2.2.1 rfl)
  have h5 := exprInBrackets_head m inp (fun x e => (hh 91 x e).2.2.2.2.2.2.2 rfl)
  simp only [exprAtom, alt, orElse, h1, h2, h3, h4, h5]

theorem expression_head (m : Nat) (inp : Bytes) (h : ∀ b x, inp = b :: x → noExprStart b = true) :
    expression (m + 2) inp = .err [⟨inp.length, .ctx "Expected rust expression"⟩] := by
  have hh : ∀ b x, inp = b :: x → b ≠ 38 ∧ b ≠ 42 := by
    intro b x e
    have := h b x e
    simp [noExprStart] at this
    exact ⟨this.1.1.1.1.2, this.1.1.1.2⟩
  have h1 : tag [38] inp = .err [] := tag_ne _ _ _ (fun x e => (hh 38 x e).1 rfl)
  have h2 : tag [42] inp = .err [] := tag_ne _ _ _ (fun x e => (hh 42 x e).2 rfl)
  have h3 : alt [tag [38], tag [42], tag []] inp = .ok inp [] := by
    simp only [alt, orElse, h1, h2, tag_nil]
  rw [expression_eq]
  apply mapRes_err; apply recognize_err
  exact context_err _ (seq_err_right h3 (seq_err_left (exprAtom_head m inp h)))

/-- the chain stops on any byte that starts none of its links -/
theorem chainStep_stop (m : Nat) (inp : Bytes)
    (h : ∀ b x, inp = b :: x → b ≠ 46 ∧ b ≠ 58 ∧ b ≠ 40 ∧ b ≠ 123 ∧ b ≠ 91 ∧ b ≠ 33) :
    chainStep (m + 1) inp = .err [] := by
  have h1 : tag [46] inp = .err [] := tag_ne _ _ _ (fun x e => (h 46 x e).1 rfl)
  have h2 : tag [58, 58] inp = .err [] := tag_ne _ _ _ (fun x e => (h 58 x e).2.1 rfl)
  have h3 := exprInParens_head m inp (fun x e => (h 40 x e).2.2.1 rfl)
  have h4 := exprInBraces_head m inp (fun x e => (h 123 x e).2.2.2.1 rfl)
  have h5 := exprInBrackets_head m inp (fun x e => (h 91 x e).2.2.2.2.1 rfl)
  have h6 : tag [33] inp = .err [] := tag_ne _ _ _ (fun x e => (h 33 x e).2.2.2.2.2 rfl)
  simp only [chainStep, alt, orElse, value_err () (preceded_err_left (context_err _ h1)),
    value_err () (preceded_err_left h2), value_err () h3, value_err () h4, value_err () h5,
    value_err () (preceded_err_left h6)]

/-- `.` followed by something that is not an expression: the chain stops before the `.` -/
theorem chainStep_dot (m : Nat) (y : Bytes) {e : Errs} (h : expression (m + 1) y = .err e) :
    chainStep (m + 1) (46 :: y) = .err [] := by
  have h1 : context "separator" (tag [46]) (46 :: y) = .ok y [46] := context_ok _ (tag_one 46 y)
  have h2 : tag [58, 58] (46 :: y) = .err [] := tag_cons_ne _ _ _ _ (by decide)
  have h3 := exprInParens_cons m 46 y (by decide)
  have h4 := exprInBraces_cons m 46 y (by decide)
  have h5 := exprInBrackets_cons m 46 y (by decide)
  have h6 : tag [33] (46 :: y) = .err [] := tag_cons_ne _ _ _ _ (by decide)
  simp only [chainStep, alt, orElse, value_err () (preceded_err_right h1 h),
    value_err () (preceded_err_left h2), value_err () h3, value_err () h4, value_err () h5,
    value_err () (preceded_err_left h6)]

/-- `(`: the chain takes a parenthesised group -/
theorem chainStep_paren (n : Nat) (y r v : Bytes) (h : exprInParens n (40 :: y) = .ok r v) :
    chainStep n (40 :: y) = .ok r () := by
  have h1 : tag [46] (40 :: y) = .err [] := tag_cons_ne _ _ _ _ (by decide)
  have h2 : tag [58, 58] (40 :: y) = .err [] := tag_cons_ne _ _ _ _ (by decide)
  simp only [chainStep, alt, orElse, value_err () (preceded_err_left (context_err _ h1)),
    value_err () (preceded_err_left h2), value_of () h]

theorem foldMany0_stop {α} {p : Parser α} {inp : Bytes} {e : Errs} (h : p inp = .err e) :
    foldMany0 p inp = .ok inp () := by
  have : many0 p inp = .ok inp [] := many0Go_err h _ []
  exact value_of () this

theorem foldMany0_one {α} {p : Parser α} {inp r : Bytes} {a : α} {e : Errs} (h1 : p inp = .ok r a)
    (hl : r.length < inp.length) (h2 : p r = .err e) : foldMany0 p inp = .ok r () := by
  have : many0 p inp = .ok r [a] := by
    show many0Go p (inp.length + 1) inp [] = _
    rw [many0Go_ok h1 hl]
    cases hn : inp.length with
    | zero => omega
    | succ n => exact many0Go_err h2 n [a]
  exact value_of () this

theorem rustName_valid {inp r v : Bytes} (h : rustName inp = .ok r v) : validUtf8 v = true := by
  obtain ⟨w, _, hv⟩ := mapRes_ok h
  exact (toStr_some hv).2

/-- from the parts to `expression`, for an expression without prefix operator -/
theorem expression_of_parts (n : Nat) (whole rest : Bytes) (b : UInt8) (x r1 a : Bytes)
    (hb : b ≠ 38 ∧ b ≠ 42) (hin : whole ++ rest = b :: x)
    (hatom : exprAtom n (b :: x) = .ok r1 a) (hchain : foldMany0 (chainStep n) r1 = .ok rest ())
    (hv : validUtf8 whole = true) :
    expression (n + 1) (whole ++ rest) = .ok rest whole := by
  have h1 : tag [38] (b :: x) = .err [] := tag_cons_ne _ _ _ _ (fun e => hb.1 e.symm)
  have h2 : tag [42] (b :: x) = .err [] := tag_cons_ne _ _ _ _ (fun e => hb.2 e.symm)
  have h3 : alt [tag [38], tag [42], tag []] (b :: x) = .ok (b :: x) [] := by
    simp only [alt, orElse, h1, h2, tag_nil]
  rw [expression_eq]
  apply mapRes_toStr_of _ hv
  apply recognize_ok_of (v := ([], a, ()))
  rw [hin]
  exact context_ok _ (seq_of h3 (seq_of hatom hchain))

end Ructe
