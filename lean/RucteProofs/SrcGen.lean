import RucteProofs.SrcCheck

/-!
# A deterministic pseudo-random generator of well-formed source templates

`genTemplate seed size : Header × List Node` builds a template declaration and a body from the Lean
definitions of the source trees (`RucteProofs/SrcTree.lean`, `HeaderDecl.lean`).  The random source is
splitmix64 on `UInt64`, threaded explicitly through a state monad; there is no IO.

The generator *constructs* trees so that the side conditions of `WF` hold (never two text nodes in a
row; the text after an `@expression` starts with a byte that ends the expression; non-empty layout where
`WF` demands it; the first node of the body does not start with layout; comment bodies free of `*@`; a
`/` in a group not followed by `*`; …) and the caller then *filters* with `templateOkB`
(`RucteProofs/SrcCheck.lean`), so every emitted case is provably in the domain of `template_complete`.
`genAccepted` does both.  `tagsTemplate` lists the constructors a template uses (for coverage counts).
-/
namespace Ructe.Gen
open Nom Ructe.C15 Ructe.Src Ructe.Hdr
open Ructe.C05 (DExpr Atom Post Pre Sep Grp StrItem)

abbrev Lay := List Item

/-! ## the random source: splitmix64 -/

structure St where
  s : UInt64
  /-- how many more body nodes may be generated -/
  budget : Nat

abbrev G := StateM St

def mix64 (s : UInt64) : UInt64 :=
  let z := (s ^^^ (s >>> 30)) * 0xBF58476D1CE4E5B9
  let z := (z ^^^ (z >>> 27)) * 0x94D049BB133111EB
  z ^^^ (z >>> 31)

def next64 : G UInt64 := modifyGet fun st =>
  let s := st.s + 0x9E3779B97F4A7C15
  (mix64 s, { st with s := s })

/-- a number below `n` (`0` for `n = 0`) -/
def below (n : Nat) : G Nat := do
  let x ← next64
  return if n = 0 then 0 else x.toNat % n

/-- true with probability `p` percent -/
def chance (p : Nat) : G Bool := do return (← below 100) < p

def pick {α : Type} [Inhabited α] (xs : Array α) : G α := do return xs[(← below xs.size)]!

/-- index chosen with the given weights -/
def weighted (ws : List Nat) : G Nat := do
  let total := ws.foldl (· + ·) 0
  let r ← below total
  let rec go : List Nat → Nat → Nat → Nat
    | [], _, i => i
    | w :: rest, r, i => if r < w then i else go rest (r - w) (i + 1)
  return go ws r 0

def takeBudget : G Unit := modify fun st => { st with budget := st.budget - 1 }
def getBudget : G Nat := do return (← get).budget

def u8 (n : Nat) : UInt8 := n.toUInt8

/-! ## bytes, characters, names -/

/-- one multi-byte UTF-8 scalar, over all the lead-byte classes of `validUtf8` -/
def genMulti : G Bytes := do
  let c1 := 0x80 + u8 (← below 64)
  let c2 := 0x80 + u8 (← below 64)
  let c3 := 0x80 + u8 (← below 64)
  match (← below 10) with
  | 0 | 1 | 2 => return [0xC2 + u8 (← below 30), c1]                        -- U+0080 … U+07FF
  | 3 | 4 => return [0xE1 + u8 (← below 12), c1, c2]                        -- E1 … EC
  | 5 => return [0xE0, 0xA0 + u8 (← below 32), c2]                           -- E0: no overlongs
  | 6 => return [0xED, 0x80 + u8 (← below 32), c2]                           -- ED: no surrogates
  | 7 => return [0xEE + u8 (← below 2), c1, c2]                              -- EE, EF
  | 8 => return [0xF0, 0x90 + u8 (← below 48), c2, c3]                       -- F0: no overlongs
  | _ =>
    if (← chance 50) then return [0xF1 + u8 (← below 3), c1, c2, c3]        -- F1 … F3
    else return [0xF4, 0x80 + u8 (← below 16), c2, c3]                       -- F4: ≤ U+10FFFF

def fixedMulti : Array String := #["é", "ü", "ß", "日本語", "🎉", "€", "→", "Ω", "ñ", "\u00a0", "\u2003", "\ufeff", "\u0301"]

def genUni : G Bytes := do
  if (← chance 50) then return str (← pick fixedMulti) else genMulti

/-- a control character (not white space), rarely NUL -/
def genCtl : G Bytes := do
  let r ← below 40
  if r = 0 then return [0]
  else if r < 8 then return [u8 r]
  else if r = 8 then return [127]
  else if r < 11 then return [u8 (r + 2)]      -- 11, 12
  else return [u8 (14 + (r - 11) % 18)]        -- 14 … 31

def genLower : G UInt8 := do return 97 + u8 (← below 26)

def genWord : G Bytes := do
  let n ← below 6
  let mut out : Bytes := []
  for _ in [0:n + 1] do
    out := (← genLower) :: out
  return out

def namePool : Array String := #["x", "y", "i", "n", "a", "b", "item", "items", "name", "title", "user", "self",
  "_", "_x", "a1", "T", "Some", "None", "Ok", "Err", "iffy", "format", "matches", "in_", "elsewhere", "f", "len",
  "iter", "enumerate", "is_empty", "unwrap", "Vec", "std", "fmt", "page", "body", "k", "v", "Point", "if", "for",
  "match", "e", "r", "opt", "xs", "to_string", "x2", "__", "A", "Z9_", "letter", "let", "else", "in"]

def nameCharPool : Bytes := str "abcdefghijklmnopqrstuvwxyzABCDEFGHIJKLMNOPQRSTUVWXYZ0123456789_"

def splitName (s : String) : UInt8 × Bytes :=
  match str s with
  | b :: cs => (b, cs)
  | [] => (95, [])

/-- a Rust name: letter or `_`, then letters, digits, `_` -/
def genName : G (UInt8 × Bytes) := do
  if (← chance 75) then return splitName (← pick namePool)
  else
    let b ← if (← chance 10) then pure 95 else if (← chance 30) then pure (65 + u8 (← below 26)) else genLower
    let n ← below 6
    let mut cs : Bytes := []
    for _ in [0:n] do
      cs := nameCharPool[(← below nameCharPool.length)]! :: cs
    return (b, cs)

def isKeyword (b : UInt8) (cs : Bytes) : Bool :=
  b :: cs == str "if" || b :: cs == str "for" || b :: cs == str "match"

def genDigits : G (UInt8 × Bytes) := do
  let n ← below 4
  let mut ds : Bytes := []
  for _ in [0:n] do
    ds := (48 + u8 (← below 10)) :: ds
  return (48 + u8 (← below 10), ds)

/-! ## text -/

def textPool : Array String := #["<p>", "</p>", "<div class=\"box\">", "</div>", "<br/>", "<a href='/x?a=1&amp;b=2'>",
  "</a>", "Hello", "world", ", ", " ", "\n", "\r\n", "\t", "  ", "\n\n  ", "\r", "\\", "\\n", "\"", "'", "else", "else if",
  " else ", " if ", "()", "[]", "(", ")", "[", "]", "(x)", "[0]", ".", "..", ". ", ".y", "::", ":", ": ", "::<T>", "!", "! ",
  "!(", "=>", "=", "==", "<!-- c -->", "*", "**", "/* */", "//", "#", ";", ",", "&", "&&", "|", "||", "%", "$", "^", "~", "`",
  "-", "+", "_", "?", "0", "42", "<", ">", "<=", "</li>\n<li>", "in", "let", "x", "y"]

def genTextChunk : G Bytes := do
  match (← weighted [50, 14, 10, 12, 6, 8]) with
  | 0 => return str (← pick textPool)
  | 1 => genWord
  | 2 => return str (← pick #[" ", "\n", "\r\n", "\t", "  ", "\n  ", " \n", "\r", "\t\t"])
  | 3 => genUni
  | 4 => genCtl
  | _ =>
    let p := str "<>/=\"'\\.,;:!?#$%^&*()[]-_+|~`"
    return [p[(← below p.length)]!]

/-- text free of `@`, `{`, `}`; valid UTF-8; non-empty -/
def genTextRaw : G Bytes := do
  let n ← below 4
  let mut out : Bytes := []
  for _ in [0:n + 1] do
    out := out ++ (← genTextChunk)
  return out

/-- `t` may follow the `@expression` `e` (and be followed in turn by `@`, `}` or the end of the input) -/
def okAfterExpr (e : DExpr) (t : Bytes) : Bool := wfNodeB (.expr e) (t ++ [64])

/-- starts of a text that end an expression although they look like a continuation -/
def trickyStarts : Array String := #[". ", ".", "..", ".,", ":", ": ", "::", "::<T>", ":::", "!", "! ", "!=", "!!", ".\n", ":)",
  "?", "-", "'", "\"", ")", "]", ">", "=", "/", "é", "1", "x", "_", "(", "[", ".x", "::x", "!(", "![", " ", "\t", "\r\n", " if ", " else "]

/-- make `t` a possible follower of the `@expression` `e`: sometimes put a tricky start in front; if the
result does not end the expression, put a byte in front that does -/
def fixAfterExpr (e : DExpr) (t : Bytes) : G Bytes := do
  let t ← if (← chance 30) then pure (str (← pick trickyStarts) ++ t) else pure t
  if okAfterExpr e t then return t
  let t₁ := str (← pick #[" ", "<", ",", ";", "\n", "\"", ")", "]", "-", "=", "/", "'", "\t", "\r\n", "?", "é"]) ++ t
  if okAfterExpr e t₁ then return t₁
  let t₂ := str (← pick #["<", ",", ";", "\"", ")", "]", "-", "=", "/", "'", "?", "é"]) ++ t
  return t₂

def stripLead (t : Bytes) : Bytes :=
  match t.dropWhile isSpace with
  | [] => str "<h1>"
  | t' => t'

/-! ## layout -/

/-- drop every `@` that directly follows a `*`: the result contains no `*@` -/
def fixComment : Bytes → Bytes
  | 42 :: 64 :: r => fixComment (42 :: r)
  | b :: r => b :: fixComment r
  | [] => []

/-- drop every `/` that directly follows a `*`: the result contains no `*/` -/
def fixRustComment : Bytes → Bytes
  | 42 :: 47 :: r => fixRustComment (42 :: r)
  | b :: r => b :: fixRustComment r
  | [] => []

def commentPool : Array String := #[" note ", "c", "", " TODO: fix ", "*", "**", " * ", "@", " @x ", "@@", "{", "}", " {x} ",
  "\n", " line1\n line2 ", " é ", " 日本 ", "🎉", "* @", "@*", " @* nested ", "(", ")", " if a { ", "*/", "/*", "\r\n", "\t",
  " a *", "*a", "@if x {", ";", "\"", " else "]

/-- the body of a `@* … *@` comment: no `*@` inside; may end in `*`, contain `*`, `@`, newlines, braces,
non-ASCII text; if `validOnly` is false, rarely bytes that are not UTF-8 -/
def genCommentBody (validOnly : Bool) : G Bytes := do
  let n ← below 3
  let mut out : Bytes := []
  for _ in [0:n + 1] do
    match (← weighted [60, 15, 15, 10]) with
    | 0 => out := out ++ str (← pick commentPool)
    | 1 => out := out ++ (← genWord)
    | 2 => out := out ++ (← genUni)
    | _ => out := out ++ (← genTextChunk)
  if !validOnly then
    if (← chance 3) then
      out := out ++ [(← pick #[0xFF, 0x80, 0xC0, 0xFE, 0xED])]
  if (← chance 15) then out := out ++ [42]
  return fixComment out

def genWs : G Bytes := do
  return str (← pick #[" ", " ", " ", "  ", "\t", "\n", "\r\n", "\n  ", " \n", "\n\n", "\r", "\t ", "\n\t", "    "])

def genItem (validOnly : Bool) : G Item := do
  if (← chance 60) then return .ws (← genWs) else return .comment (← genCommentBody validOnly)

/-- a non-empty mixed layout: 1–3 items (white-space runs, comments, also two comments back to back) -/
def genMixed (validOnly : Bool) : G Lay := do
  if (← chance 8) then
    return [.comment (← genCommentBody validOnly), .comment (← genCommentBody validOnly)]
  let n ← below 3
  let mut out : Lay := []
  for _ in [0:n + 1] do
    out := (← genItem validOnly) :: out
  return out

/-- a layout slot: empty with probability `pEmpty` %, one space with `pSpace` %, mixed otherwise -/
def genLay (pEmpty pSpace : Nat) (validOnly : Bool := false) : G Lay := do
  let r ← below 100
  if r < pEmpty then return []
  else if r < pEmpty + pSpace then return [.ws [32]]
  else genMixed validOnly

/-! ## group content, string literals, documented expressions -/

def strEscapes : Bytes := [39, 34, 92, 110, 114, 116, 48, 120, 117]

def hexDigit : G UInt8 := do return (str "0123456789abcdefABCDEF")[(← below 22)]!

/-- a piece of a string literal body -/
def genStrChunk : G (List StrItem) := do
  match (← weighted [30, 25, 12, 8, 10, 6, 9]) with
  | 0 => return (← genWord).map .plain
  | 1 =>
    let c := strEscapes[(← below 9)]!
    if c = 120 then        -- `\x41`
      return [.esc 120, .plain (48 + u8 (← below 8)), .plain (← hexDigit)]
    else if c = 117 then   -- `\u{1F600}`
      let n ← below 4
      let mut ds : List StrItem := [.plain 125]
      for _ in [0:n + 1] do
        ds := .plain (← hexDigit) :: ds
      return .esc 117 :: .plain 123 :: ds
    else return [.esc c]
  | 2 => return (str (← pick #[")", "]", "}", "(", "[", "{", "/*", "*/", "//", "@", "'", "(]", "})"])).map .plain
  | 3 => return [.plain 32]
  | 4 => return (← genUni).map .plain
  | 5 => return (str (← pick #[", ", ": ", "%d", "<b>", "=", "a.b", "x y", "\n", "\t", "#", "\r\n"])).map .plain
  | _ => return []

def genStr : G (List StrItem) := do
  let n ← below 4
  let mut out : List StrItem := []
  for _ in [0:n] do
    out := out ++ (← genStrChunk)
  return out

def grpPunct : Array String := #[", ", " + ", " - ", "*", " * ", "=", " == ", "<", ">", "&", "&&", "|", "!", ".", "::", ";",
  "'", "@", " ", "\n", "#", "?", "%", "^", "~", "$", "\\", ":", " => ", "..", "-> ", "'a'", "|x| ", "\t", "\r\n", "_", "`"]

/-- a `/` must not be directly followed by `*` -/
def fixSlash : List Grp → List Grp
  | .slash :: .plain 42 :: r => .slash :: .plain 32 :: fixSlash (.plain 42 :: r)
  | x :: r => x :: fixSlash r
  | [] => []

/-- documented group content of nesting depth at most `d` -/
def genGrpL : Nat → G (List Grp)
  | 0 => do
    match (← below 4) with
    | 0 => return []
    | 1 => return (← genWord).map .plain
    | 2 => let (d, ds) ← genDigits; return (d :: ds).map .plain
    | _ => return (← genWord).map .plain ++ (str ", ").map .plain ++ (← genWord).map .plain
  | d + 1 => do
    let n ← below 5
    let mut out : List Grp := []
    for _ in [0:n] do
      match (← weighted [22, 8, 22, 8, 5, 5, 8, 6, 6, 5, 5]) with
      | 0 => let (b, cs) ← genName; out := out ++ (b :: cs).map .plain
      | 1 => let (b, cs) ← genDigits; out := out ++ (b :: cs).map .plain
      | 2 => out := out ++ (str (← pick grpPunct)).map .plain
      | 3 => out := out ++ [.parens (← genGrpL d)]
      | 4 => out := out ++ [.brackets (← genGrpL d)]
      | 5 => out := out ++ [.braces (← genGrpL d)]
      | 6 => out := out ++ [.str (← genStr)]
      | 7 =>
        let body ← if (← chance 50) then pure (str (← pick #[" c ", ")", "]", "}", "(", " ) ] } ", "*", " * ", "", "\"", "/", "/*", " é "]))
          else genWord
        out := out ++ [.comment (fixRustComment body)]
      | 8 => out := out ++ [.slash]
      | 9 => out := out ++ (← genUni).map .plain
      | _ => out := out ++ [.plain 32, .slash, .plain 32]
    return fixSlash out

def genAtom (d : Nat) (noParens : Bool) : G Atom := do
  match (← weighted [60, 12, 12, (if noParens then 0 else 9), 7]) with
  | 0 => let (b, cs) ← genName; return .name b cs
  | 1 => let (b, cs) ← genDigits; return .digits b cs
  | 2 => return .str (← genStr)
  | 3 => return .parens (← genGrpL d)
  | _ => return .brackets (← genGrpL d)

def genPost (d : Nat) : G Post := do
  let g ← genGrpL d
  match (← weighted [50, 18, 7, 15, 10]) with
  | 0 => return .call g
  | 1 => return .index g
  | 2 => return .braces g
  | 3 => return .bangCall g
  | _ => return .bangIndex g

/-- a documented expression; `head` = directly after `@` (then no `*` prefix, no `(` atom, and not a bare
keyword `if` / `for` / `match`) -/
def genDExpr : Nat → Bool → G DExpr
  | 0, _ => do
    let (b, cs) ← genName
    if isKeyword b cs then return .last .none (.name b (cs ++ [95])) [] else return .last .none (.name b cs) []
  | d + 1, head => do
    let pre : Pre ← match (← weighted (if head then [88, 12, 0] else [80, 10, 10])) with
      | 0 => pure .none
      | 1 => pure .amp
      | _ => pure .star
    let atom ← genAtom (min d 2) (head && match pre with | .none => true | _ => false)
    let np ← weighted [55, 33, 12]
    let mut ps : List Post := []
    for _ in [0:np] do
      ps := (← genPost (min d 2)) :: ps
    if (← chance (if d ≥ 2 then 38 else 20)) then
      let s : Sep := if (← chance 75) then .dot else .path
      let next ← genDExpr d false
      return .link pre atom ps s next
    else
      match atom, ps with
      | .name b cs, [] =>
        if head && isKeyword b cs && (← chance 60) then return .last pre atom [.call (← genGrpL 1)]
        else return .last pre atom []
      | _, _ => return .last pre atom ps

/-- mostly simple expressions, as in real templates -/
def genExpr (head : Bool) : G DExpr := do
  match (← weighted [35, 20, 45]) with
  | 0 => genDExpr 0 head
  | 1 => genDExpr 1 head
  | _ => genDExpr 3 head

/-! ## the Rust fragments of the directives -/

def genRelOp : G RelOp := do
  match (← below 8) with
  | 0 => return .ne | 1 => return .and | 2 => return .le | 3 => return .lt
  | 4 => return .eq | 5 => return .ge | 6 => return .gt | _ => return .or

def genNeg : G (Option Lay) := do
  if (← chance 25) then return some (← genLay 70 15 true) else return none

/-- a logic expression with `k` operators at most; the first expression must not start with `let` -/
def genLogic : Nat → G Logic
  | 0 => do return .last (← genNeg) (← genExpr false)
  | k + 1 => do
    if (← chance 45) then return .last (← genNeg) (← genExpr false)
    else
      let neg ← genNeg
      let e ← genExpr false
      let l₁ ← genLay 25 55 true
      let o ← genRelOp
      let l₂ ← genLay 25 55 true
      return .op neg e l₁ o l₂ (← genLogic k)

def genCond : G Cond := do
  if (← chance 25) then
    let la ← genLay 8 70
    let lhs ← genExpr false
    let lb ← genLay 15 65
    let lc ← genLay 15 65
    return .letBind la lhs lb lc (← genExpr false)
  else return .logic (← genLogic 3)

def genTupleItems : G (List (Nat × DExpr)) := do
  let n ← below 4
  let mut out : List (Nat × DExpr) := []
  for i in [0:n] do
    let e ← if (← chance 70) then genDExpr 0 false else genDExpr 2 false
    let k ← if i = 0 then pure 0 else weighted [25, 60, 10, 5]
    out := out ++ [(k, e)]
  return out

def genForPat : G ForPat := do
  match (← weighted [45, 15, 25, 15]) with
  | 0 => let (b, cs) ← genName; return .name b cs none
  | 1 => let (b, cs) ← genName; return .name b cs (some (← genGrpL 2))
  | 2 => return .tuple false (← genTupleItems)
  | _ => return .tuple true (← genTupleItems)

def genLoopExpr : G LoopExpr := do
  if (← chance 65) then return .single (← genExpr false)
  else return .range (← genExpr false) (← chance 40) (← genExpr false)

/-! ## the body -/

/-- node kinds: 0 text, 1 `@@`, 2 `@{`, 3 `@}`, 4 comment, 5 expression, 6 `@(…)`, 7 `@if`, 8 `@for`, 9 `@match`, 10 `@:call` -/
def chooseKind (allowText allowComment allowCompound : Bool) : G Nat :=
  weighted [if allowText then 40 else 0, 3, 3, 3, if allowComment then 7 else 0, 22, 6,
    if allowCompound then 12 else 0, if allowCompound then 9 else 0, if allowCompound then 6 else 0,
    if allowCompound then 7 else 0]

def genLeaf (kind : Nat) : G Node := do
  match kind with
  | 0 => return .text (← genTextRaw)
  | 1 => return .escAt
  | 2 => return .escOpen
  | 3 => return .escClose
  | 4 => return .comment (← genCommentBody false)
  | 5 => return .expr (← genExpr true)
  | _ => return .paren (← genGrpL 3)

mutual
/-- a compound node (`kind` 7–10) whose blocks nest at most `d / 2` further levels -/
def genCompound : Nat → Nat → G Node
  | 0, _ => return .escAt
  | d + 1, kind => do
    match kind with
    | 7 => return .ifNode (← genChain d (← weighted [55, 30, 15]))
    | 8 =>
      let l₁ ← genLay 75 10
      let pat ← genForPat
      let l₂ ← if pat.bare then genLay 0 75 else genLay 20 60
      let l₃ ← genLay 8 75
      let iter ← genLoopExpr
      let l₄ ← genLay 0 75
      return .forIn l₁ pat l₂ l₃ iter l₄ (← genBody d false)
    | 9 =>
      let l₀ ← genLay 75 10
      let e ← genExpr false
      let l₁ ← genLay 0 75
      let n ← below 4
      let mut arms : List Arm := []
      for _ in [0:n] do
        let a₁ ← genLay 20 50
        let pat ← if (← chance 50) then genDExpr 1 false else genExpr false
        let a₂ ← genLay 20 60
        let a₃ ← genLay 20 60
        arms := .mk a₁ pat a₂ a₃ (← genBody d false) :: arms
      return .matchOn l₀ e l₁ arms (← genLay 30 40)
    | _ =>
      let (b, cs) ← genName
      let n ← below 4
      let mut args : List Arg := []
      for i in [0:n] do
        let pre ← if i = 0 then pure [] else genLay 25 60
        if (← chance 65) then args := args ++ [.rust pre (← genExpr false)]
        else args := args ++ [.block pre (← genBody d false) (← genLay 60 20)]
      return .call b cs args
/-- what follows `@if `; `len` further `else if` links at most -/
def genChain : Nat → Nat → G IfChain
  | 0, _ => return .last [] (.logic (.last none (.last .none (.name 120 []) []))) [.ws [32]] []
  | d + 1, len => do
    let l₁ ← genLay 75 10
    let c ← genCond
    let l₂ ← genLay 0 75
    let body ← genBody d false
    match len with
    | 0 => return .last l₁ c l₂ body
    | 1 => return .els l₁ c l₂ body (← genLay 25 55) (← genLay 25 55) (← genBody d false)
    | _ =>
      let l₃ ← genLay 25 55
      let l₄ ← genLay 10 70
      let len' ← weighted [30, 30, 40]
      return .elif l₁ c l₂ body l₃ l₄ (← genChain d len')
/-- a list of nodes: never two text nodes in a row, the text after an expression ends it; at the top level
the first node does not start with layout -/
def genBody : Nat → Bool → G (List Node)
  | 0, _ => do
    if (← chance 40) then return [] else return [.text (← genTextRaw)]
  | d + 1, top => do
    let budget ← getBudget
    let n ← if top then (do
        if (← chance 3) then pure 0 else if (← chance 5) then pure 1 else pure (2 + (← below (budget / 3 + 2))))
      else if (← chance 10) then pure 0 else pure (1 + (← below (min 4 (budget + 1))))
    let mut out : Array Node := #[]
    let mut prevText := false
    let mut prevExpr : Option DExpr := none
    let mut prevLastIf := false
    for i in [0:n] do
      let budget ← getBudget
      let kind ← chooseKind (!prevText) (!(top && i = 0)) (d ≥ 1 && budget ≥ 1)
      takeBudget
      let node ←
        if kind = 0 then do
          let t ← genTextRaw
          let t := if top && i = 0 then stripLead t else t
          let t ← match prevExpr with
            | some e => fixAfterExpr e t
            | none => pure t
          -- an `else` after an `@if` without `else`: fine unless `{` or `if` follows it
          let t ← if prevLastIf && (← chance 20) then
              pure (str (← pick #[" else ", "else", "\nelse ", " else\n", "else:", " else i", "\telse x"]) ++ t)
            else pure t
          pure (Node.text t)
        else if kind ≤ 6 then genLeaf kind
        else genCompound d kind
      prevText := kind = 0
      prevExpr := match node with
        | .expr e => some e
        | _ => none
      prevLastIf := match node with
        | .ifNode (.last ..) => true
        | _ => false
      out := out.push node
    return out.toList
end

/-! ## the declaration -/

def tyNamePool : Array String := #["T", "U", "String", "str", "u8", "usize", "i32", "bool", "Vec", "Option", "HashMap",
  "Html", "Content", "Display", "Fn", "Tr", "Item", "User", "dynamic", "implFoo", "Self", "A", "B", "_T", "Page2"]

def genTyName : G (UInt8 × Bytes) := do
  if (← chance 85) then return splitName (← pick tyNamePool) else genName

def genWsBytes (pEmpty pSpace : Nat) : G Bytes := do
  let r ← below 100
  if r < pEmpty then return []
  else if r < pEmpty + pSpace then return [32]
  else genWs

def genLt (pEmpty : Nat) : G Lt := do
  let (b, cs) ← if (← chance 70) then pure (97 + u8 (← below 4), []) else genName
  return ⟨← genLay pEmpty (85 - pEmpty) true, b, cs⟩

def genTrailing (p : Nat) : G (Option Bytes) := do
  if (← chance p) then return some (← genWsBytes 50 30) else return none

mutual
/-- a type of the declaration grammar; `lead` = layout wanted in front (ignored after `&`) -/
def genTy : Nat → Lay → G Ty
  | 0, lead => do
    let (b, cs) ← genTyName
    return .mk false none lead .none (.name b cs) .none
  | d + 1, lead => do
    let amp ← chance 25
    let hasLt ← chance (if amp then 45 else 8)
    let kw : Kw ← match (← weighted [80, 10, 10]) with
      | 0 => pure .none
      | 1 => pure (.impl (← genLay 4 76 true))
      | _ => pure (.dyn (← genLay 4 76 true))
    let base : Base ← match (← weighted [62, 16, 22]) with
      | 0 => let (b, cs) ← genTyName; pure (.name b cs)
      | 1 => pure (.slice (← genTy d (← genLay 80 10 true)))
      | _ => pure (.tuple (← genElems d (← below 4)) (← genTrailing 25))
    let gen : Gen ← match base with
      | .name _ _ =>
        if (← chance 35) then
          let k ← weighted [8, 40, 32, 20]
          pure (.args (← genElems d k) (← genTrailing 15))
        else pure .none
      | _ => if (← chance 6) then pure (.args (← genElems d 1) none) else pure .none
    if hasLt then
      -- after the lifetime's name: a non-empty layout, unless `[` or `(` follows directly
      let tight := match kw, base with
        | .none, .slice _ | .none, .tuple _ _ => true
        | _, _ => false
      let l ← if tight then genLay 30 50 true else genLay 0 80 true
      let x ← genLt 100
      let inner ← genLay 75 15 true
      let x : Lt := if amp then { x with l := inner } else { x with l := lead }
      return .mk amp (some x) l kw base gen
    else
      let inner ← genLay 75 15 true
      return .mk amp none (if amp then inner else lead) kw base gen
/-- `n` elements of a type list; after a comma mostly one space -/
def genElems : Nat → Nat → G (List Elem)
  | 0, n => do
    let mut out : List Elem := []
    for i in [0:n] do
      let lead ← if i = 0 then genLay 88 6 true else genLay 20 65 true
      if (← chance 15) then
        let x ← genLt 100
        out := out ++ [.lt { x with l := lead }]
      else
        let (b, cs) ← genTyName
        out := out ++ [.ty (.mk false none lead .none (.name b cs) .none)]
    return out
  | d + 1, n => do
    let mut out : List Elem := []
    for i in [0:n] do
      let lead ← if i = 0 then genLay 88 6 true else genLay 20 65 true
      if (← chance 15) then
        let x ← genLt 100
        out := out ++ [.lt { x with l := lead }]
      else
        out := out ++ [.ty (← genTy d lead)]
    return out
end

def genParam (first : Bool) : G Param := do
  let pre ← if first then genWsBytes 70 15 else genWsBytes 15 60
  let (b, cs) ← genName
  let l1 ← genLay 80 12 true
  let l2 ← genLay 15 70 true
  let ty ← genTy (← weighted [25, 35, 25, 15]) []
  return ⟨pre, b, cs, l1, l2, ty⟩

def usePool : Array String := #["use super::Page", "use std::fmt::{Display}", "use crate::models::{User, Item}",
  "use std::collections::HashMap as Map", "use super::*", "use ::chrono::NaiveDate", "use a::b", "extern crate x",
  "use é::ü", "use  a :: b", "use a::{b,\n  c}", "type T = u8", "use a::b as _"]

def genUse : G UseLine := do
  let text ← if (← chance 85) then pure (str (← pick usePool))
    else do
      let t ← genTextRaw
      pure (str "use " ++ t.filter useByte)
  return ⟨text, ← genLay 10 5⟩

def genHeader : G Header := do
  let lead ← genLay 60 5
  let nu ← weighted [40, 30, 20, 10]
  let mut uses : List UseLine := []
  for _ in [0:nu] do
    uses := (← genUse) :: uses
  let nl ← weighted [70, 15, 10, 5]
  let mut lts : List LtItem := []
  for i in [0:nl] do
    let pre ← if i = 0 then genWsBytes 80 10 else genWsBytes 15 70
    let (b, cs) ← if (← chance 75) then pure (97 + u8 i, []) else genName
    lts := lts ++ [⟨pre, b, cs⟩]
  let np ← weighted [15, 25, 25, 15, 12, 8]
  let mut params : List Param := []
  for i in [0:np] do
    params := params ++ [← genParam (i = 0)]
  let wsClose ← genWsBytes 70 15
  let after ← genLay 15 5
  return { lead, uses, lts, params, wsClose, after }

/-! ## whole templates -/

/-- **the generator**: a declaration and a body of about `size` nodes, from the seed -/
def genTemplate (seed : UInt64) (size : Nat) : Header × List Node :=
  let act : G (Header × List Node) := do
    let h ← genHeader
    let ns ← genBody 9 true
    return (h, ns)
  (act.run { s := seed, budget := size }).1

/-- the seed of the `i`-th case of a run -/
def caseSeed (seed : UInt64) (i : Nat) : UInt64 := mix64 (seed + 0x9E3779B97F4A7C15 * (i.toUInt64 + 1))

/-- generate and filter: only templates in the domain of `template_complete` -/
def genAccepted (seed : UInt64) (size : Nat) : Option (Header × List Node) :=
  let t := genTemplate seed size
  if templateOkB t.1 t.2 then some t else none

theorem genAccepted_sound {seed : UInt64} {size : Nat} {h : Header} {ns : List Node}
    (e : genAccepted seed size = some (h, ns)) :
    template (C13Header.fuelTemplate h ns) (printHeader h ++ printNodes ns) = .ok [] (C13Header.intended h ns) := by
  unfold genAccepted at e
  generalize genTemplate seed size = t at e
  by_cases hok : templateOkB t.1 t.2 = true
  · simp only [hok, if_true, Option.some.injEq] at e
    subst e
    exact templateOkB_sound _ _ hok
  · simp [hok] at e

/-! ## which constructors a template uses -/

abbrev Tags := Array String

def tagsLay (slot : String) (l : Lay) (acc : Tags) : Tags :=
  let acc := acc.push (if l.isEmpty then "lay.empty" else "lay.nonempty")
  let acc := if l.length ≥ 2 then acc.push "lay.multi" else acc
  let _ := slot
  l.foldl (fun acc i => match i with
    | .ws b => acc.push (if b == [32] then "item.space" else if b.contains 10 && b.contains 13 then "item.crlf"
        else if b.contains 10 then "item.lf" else if b.contains 9 then "item.tab" else "item.ws")
    | .comment b => (if b.getLast? == some 42 then acc.push "item.comment**@" else acc).push
        (if validUtf8 b then (if b.all (· < 128) then "item.comment" else "item.commentNonAscii") else "item.commentNotUtf8")) acc

def tagsStr (items : List StrItem) (acc : Tags) : Tags :=
  items.foldl (fun acc i => match i with
    | .plain _ => acc
    | .esc c => acc.push ("esc.\\" ++ String.singleton (Char.ofNat c.toNat))) (acc.push "str")

mutual
def tagsGrp : Grp → Tags → Tags
  | .plain _, acc => acc
  | .parens g, acc => tagsGrpL g (acc.push "grp.parens")
  | .brackets g, acc => tagsGrpL g (acc.push "grp.brackets")
  | .braces g, acc => tagsGrpL g (acc.push "grp.braces")
  | .str items, acc => tagsStr items (acc.push "grp.str")
  | .comment _, acc => acc.push "grp.comment"
  | .slash, acc => acc.push "grp.slash"
def tagsGrpL : List Grp → Tags → Tags
  | [], acc => acc
  | x :: r, acc => tagsGrpL r (tagsGrp x acc)
end

def tagsAtom (a : Atom) (acc : Tags) : Tags :=
  match a with
  | .name _ _ => acc.push "atom.name"
  | .digits _ _ => acc.push "atom.digits"
  | .str items => tagsStr items (acc.push "atom.str")
  | .parens g => tagsGrpL g (acc.push "atom.parens")
  | .brackets g => tagsGrpL g (acc.push "atom.brackets")

def tagsPost (p : Post) (acc : Tags) : Tags :=
  tagsGrpL p.group (acc.push (match p with
    | .call _ => "post.call" | .index _ => "post.index" | .braces _ => "post.braces"
    | .bangCall _ => "post.bangCall" | .bangIndex _ => "post.bangIndex"))

def tagsPre (p : Pre) (acc : Tags) : Tags :=
  match p with
  | .none => acc
  | .amp => acc.push "pre.amp"
  | .star => acc.push "pre.star"

def tagsDExpr : DExpr → Tags → Tags
  | .last p a ps, acc => ps.foldl (fun acc q => tagsPost q acc) (tagsAtom a (tagsPre p acc))
  | .link p a ps s next, acc =>
    tagsDExpr next ((ps.foldl (fun acc q => tagsPost q acc) (tagsAtom a (tagsPre p acc))).push
      (match s with | .dot => "sep.dot" | .path => "sep.path"))

def tagsNeg (n : Option Lay) (acc : Tags) : Tags :=
  match n with
  | none => acc
  | some l => tagsLay "neg" l (acc.push "logic.not")

def tagsLogic : Logic → Tags → Tags
  | .last neg e, acc => tagsDExpr e (tagsNeg neg acc)
  | .op neg e l₁ o l₂ next, acc =>
    tagsLogic next (tagsLay "op" l₂ (tagsLay "op" l₁ (tagsDExpr e (tagsNeg neg (acc.push
      ("rel." ++ String.fromUTF8! ⟨o.print.toArray⟩))))))

def tagsCond (c : Cond) (acc : Tags) : Tags :=
  match c with
  | .letBind la lhs lb lc rhs =>
    tagsDExpr rhs (tagsDExpr lhs (tagsLay "let" lc (tagsLay "let" lb (tagsLay "let" la (acc.push "Cond.letBind")))))
  | .logic g => tagsLogic g (acc.push "Cond.logic")

def tagsForPat (p : ForPat) (acc : Tags) : Tags :=
  match p with
  | .name _ _ none => acc.push "ForPat.name"
  | .name _ _ (some g) => tagsGrpL g (acc.push "ForPat.struct")
  | .tuple amp items =>
    items.foldl (fun acc i => tagsDExpr i.2 acc) (acc.push (if amp then "ForPat.ampTuple" else "ForPat.tuple"))

def tagsLoopExpr (i : LoopExpr) (acc : Tags) : Tags :=
  match i with
  | .single e => tagsDExpr e (acc.push "LoopExpr.single")
  | .range lo incl hi => tagsDExpr hi (tagsDExpr lo (acc.push (if incl then "LoopExpr.rangeIncl" else "LoopExpr.range")))

mutual
def tagsNode : Node → Tags → Tags
  | .text t, acc =>
    let acc := acc.push "Node.text"
    let acc := if t.all (· < 128) then acc else acc.push "text.nonAscii"
    if t.any (fun b => b < 32 && !isSpace b || b == 127) then acc.push "text.control" else acc
  | .escAt, acc => acc.push "Node.escAt"
  | .escOpen, acc => acc.push "Node.escOpen"
  | .escClose, acc => acc.push "Node.escClose"
  | .comment _, acc => acc.push "Node.comment"
  | .expr e, acc => tagsDExpr e (acc.push "Node.expr")
  | .paren g, acc => tagsGrpL g (acc.push "Node.paren")
  | .ifNode c, acc => tagsChain c (acc.push "Node.ifNode")
  | .forIn l₁ pat l₂ l₃ iter l₄ body, acc =>
    tagsNodes body (tagsLay "for" l₄ (tagsLoopExpr iter (tagsLay "for" l₃ (tagsLay "for" l₂ (tagsForPat pat
      (tagsLay "for" l₁ (acc.push "Node.forIn")))))))
  | .matchOn l₀ e l₁ arms lEnd, acc =>
    tagsLay "match" lEnd (tagsArms arms (tagsLay "match" l₁ (tagsDExpr e (tagsLay "match" l₀
      ((acc.push "Node.matchOn").push ("match.arms" ++ toString arms.length))))))
  | .call _ _ args, acc => tagsArgs args ((acc.push "Node.call").push ("call.args" ++ toString args.length))
def tagsNodes : List Node → Tags → Tags
  | [], acc => acc
  | x :: r, acc => tagsNodes r (tagsNode x acc)
def tagsChain : IfChain → Tags → Tags
  | .last l₁ c l₂ body, acc =>
    tagsNodes body (tagsLay "if" l₂ (tagsCond c (tagsLay "if" l₁ (acc.push "IfChain.last"))))
  | .els l₁ c l₂ body l₃ l₄ body2, acc =>
    tagsNodes body2 (tagsLay "if" l₄ (tagsLay "if" l₃ (tagsNodes body (tagsLay "if" l₂ (tagsCond c (tagsLay "if" l₁
      (acc.push "IfChain.els")))))))
  | .elif l₁ c l₂ body l₃ l₄ next, acc =>
    tagsChain next (tagsLay "if" l₄ (tagsLay "if" l₃ (tagsNodes body (tagsLay "if" l₂ (tagsCond c (tagsLay "if" l₁
      (acc.push "IfChain.elif")))))))
def tagsArm : Arm → Tags → Tags
  | .mk l₁ pat l₂ l₃ body, acc =>
    tagsNodes body (tagsLay "arm" l₃ (tagsLay "arm" l₂ (tagsDExpr pat (tagsLay "arm" l₁ (acc.push "Arm")))))
def tagsArms : List Arm → Tags → Tags
  | [], acc => acc
  | a :: r, acc => tagsArms r (tagsArm a acc)
def tagsArg : Arg → Tags → Tags
  | .rust pre e, acc => tagsDExpr e (tagsLay "arg" pre (acc.push "Arg.rust"))
  | .block pre body after, acc => tagsLay "arg" after (tagsNodes body (tagsLay "arg" pre (acc.push "Arg.block")))
def tagsArgs : List Arg → Tags → Tags
  | [], acc => acc
  | a :: r, acc => tagsArgs r (tagsArg a acc)
end

-- nesting depth of the blocks
mutual
def depthNode : Node → Nat
  | .ifNode c => depthChain c
  | .forIn _ _ _ _ _ _ body => depthNodes body + 1
  | .matchOn _ _ _ arms _ => depthArms arms + 1
  | .call _ _ args => depthArgs args
  | _ => 0
def depthNodes : List Node → Nat
  | [] => 0
  | x :: r => max (depthNode x) (depthNodes r)
def depthChain : IfChain → Nat
  | .last _ _ _ body => depthNodes body + 1
  | .els _ _ _ body _ _ body2 => max (depthNodes body) (depthNodes body2) + 1
  | .elif _ _ _ body _ _ next => max (depthNodes body + 1) (depthChain next)
def depthArm : Arm → Nat
  | .mk _ _ _ _ body => depthNodes body
def depthArms : List Arm → Nat
  | [] => 0
  | a :: r => max (depthArm a) (depthArms r)
def depthArg : Arg → Nat
  | .rust _ _ => 0
  | .block _ body _ => depthNodes body + 1
def depthArgs : List Arg → Nat
  | [] => 0
  | a :: r => max (depthArg a) (depthArgs r)
end

def tagsLt (x : Lt) (acc : Tags) : Tags := tagsLay "lt" x.l (acc.push "Ty.lifetime")

mutual
def tagsTy : Ty → Tags → Tags
  | .mk amp lt l kw base gen, acc =>
    let acc := acc.push "Ty"
    let acc := if amp then acc.push "Ty.amp" else acc
    let acc := match lt with
      | some x => tagsLt x acc
      | none => acc
    let acc := tagsLay "ty" l acc
    let acc := match kw with
      | .none => acc
      | .impl l => tagsLay "kw" l (acc.push "Kw.impl")
      | .dyn l => tagsLay "kw" l (acc.push "Kw.dyn")
    tagsGen gen (tagsBase base acc)
def tagsBase : Base → Tags → Tags
  | .name _ _, acc => acc.push "Base.name"
  | .slice t, acc => tagsTy t (acc.push "Base.slice")
  | .tuple es tr, acc =>
    tagsElems es (((acc.push "Base.tuple").push ("tuple.elems" ++ toString es.length)).push
      (if tr.isSome then "trailingComma" else "noTrailingComma"))
def tagsGen : Gen → Tags → Tags
  | .none, acc => acc
  | .args es tr, acc =>
    tagsElems es (((acc.push "Gen.args").push ("gen.elems" ++ toString es.length)).push
      (if tr.isSome then "trailingComma" else "noTrailingComma"))
def tagsElem : Elem → Tags → Tags
  | .ty t, acc => tagsTy t (acc.push "Elem.ty")
  | .lt x, acc => tagsLt x (acc.push "Elem.lt")
def tagsElems : List Elem → Tags → Tags
  | [], acc => acc
  | e :: r, acc => tagsElems r (tagsElem e acc)
end

def tagsHeader (h : Header) (acc : Tags) : Tags :=
  let acc := acc.push ("Header.uses" ++ toString h.uses.length)
  let acc := acc.push ("Header.lts" ++ toString h.lts.length)
  let acc := acc.push ("Header.params" ++ toString h.params.length)
  let acc := tagsLay "lead" h.lead acc
  let acc := tagsLay "after" h.after acc
  let acc := h.uses.foldl (fun acc u => tagsLay "use" u.after acc) acc
  h.params.foldl (fun acc p => tagsTy p.ty (tagsLay "param" p.l2 (tagsLay "param" p.l1 acc))) acc

/-- every constructor (and a few shapes of interest) used by a template, with repetitions -/
def tagsTemplate (h : Header) (ns : List Node) : Tags :=
  let acc := tagsNodes ns (tagsHeader h #[])
  acc.push ("depth" ++ toString (depthNodes ns))

end Ructe.Gen
