import RucteModel.Html

/-! Lemma library for the escaping writer (`C02`, `C06`, and the sink part of `C14`). -/
namespace Esc

/-- A schedule that never fails permanently and never reports `Ok(0)`:
any mix of partial accepts and `Interrupted`. -/
def Benign (sch : List Resp) : Prop := ∀ r ∈ sch, r ≠ .fail ∧ r ≠ .zero

theorem Benign.tail {a : Resp} {t : List Resp} (h : Benign (a :: t)) : Benign t :=
  fun r hr => h r (List.mem_cons_of_mem _ hr)

theorem benign_of_suffix {a b : List Resp} (h : Benign (a ++ b)) : Benign b :=
  fun r hr => h r (List.mem_append_right _ hr)

theorem escape_append (a b : Bytes) : escape (a ++ b) = escape a ++ escape b := by
  induction a with
  | nil => rfl
  | cons c r ih =>
    simp only [List.cons_append, escape]
    split <;> simp [ih]

theorem take_add_take_drop (n j : Nat) (data : Bytes) :
    data.take n ++ (data.drop n).take j = data.take (n + j) := by
  rw [← List.take_append_drop n (data.take (n + j))]
  congr 1
  · simp [List.take_take]
  · simp [List.drop_take]

/-- Everything we need about std's `write_all` on the raw sink, for every schedule. -/
theorem writeAllSink_full (s : Sink) (data : Bytes) :
    (∃ k, (writeAllSink s data).1.got = s.got ++ data.take k) ∧
    ((writeAllSink s data).2 = .ok → (writeAllSink s data).1.got = s.got ++ data) ∧
    (∃ pre, s.sched = pre ++ (writeAllSink s data).1.sched) ∧
    (Benign s.sched → (writeAllSink s data).2 = .ok) := by
  fun_induction writeAllSink s data
  case case1 s => exact ⟨⟨0, by simp⟩, fun _ => by simp, ⟨[], by simp⟩, fun _ => rfl⟩
  case case2 s data h hs =>
    exact ⟨⟨data.length, by simp⟩, fun _ => rfl, ⟨[], by simp⟩, fun _ => rfl⟩
  case case3 s data h k t hs n ih =>
    obtain ⟨⟨j, hj⟩, hok, ⟨pre, hpre⟩, hb⟩ := ih
    refine ⟨⟨n + j, ?_⟩, ?_, ⟨.accept k :: pre, ?_⟩, ?_⟩
    · rw [hj]; simp only [List.append_assoc]; rw [take_add_take_drop]
    · intro h2; rw [hok h2]; simp [List.append_assoc]
    · rw [hs]; simp only [List.cons_append]; exact congrArg _ hpre
    · intro hben; apply hb; simp only; rw [hs] at hben; exact hben.tail
  case case4 s data h t hs =>
    refine ⟨⟨0, by simp⟩, fun h => by simp at h, ⟨[.zero], by simp [hs]⟩, ?_⟩
    intro hben; rw [hs] at hben; exact absurd rfl (hben .zero (by simp)).2
  case case5 s data h t hs ih =>
    obtain ⟨hj, hok, ⟨pre, hpre⟩, hb⟩ := ih
    refine ⟨by simpa using hj, by simpa using hok, ⟨.interrupted :: pre, ?_⟩, ?_⟩
    · rw [hs]; simp only [List.cons_append]; exact congrArg _ hpre
    · intro hben; apply hb; simp only; rw [hs] at hben; exact hben.tail
  case case6 s data h t hs =>
    refine ⟨⟨0, by simp⟩, fun h => by simp at h, ⟨[], by simp⟩, ?_⟩
    intro hben; rw [hs] at hben; exact absurd rfl (hben .fail (by simp)).1

theorem plainLen_le (d : Bytes) : plainLen d ≤ d.length := by
  induction d with
  | nil => simp [plainLen]
  | cons c r ih => simp only [plainLen]; split <;> simp <;> omega

/-- a run of non-special bytes is its own escape -/
theorem escape_take_plain (d : Bytes) (n : Nat) (h : n ≤ plainLen d) : escape (d.take n) = d.take n := by
  induction d generalizing n with
  | nil => simp [escape]
  | cons c r ih =>
    cases n with
    | zero => simp [escape]
    | succ n =>
      simp only [plainLen] at h
      split at h
      · omega
      · next hc =>
        simp only [List.take_succ_cons, escape, hc]
        simp [ih n (by omega)]

theorem escape_split (d : Bytes) (n : Nat) : escape d = escape (d.take n) ++ escape (d.drop n) := by
  rw [← escape_append, List.take_append_drop]

theorem plainLen_zero_special {c : UInt8} {r : Bytes} (h : ¬ plainLen (c :: r) > 0) : isSpecial c = true := by
  simp only [plainLen] at h
  split at h
  · assumption
  · omega

theorem escape_take_one_special {c : UInt8} {r : Bytes} (h : isSpecial c = true) :
    escape ((c :: r).take 1) = entity c := by
  simp [escape, h]

/-- One `ToHtmlEscapingWriter::write` call on non-empty data, for every schedule: the inner
sink has received a prefix of the escape of the bytes reported as written. -/
theorem escWrite_spec (s : Sink) (data : Bytes) (hne : data ≠ []) :
    (∃ pre, s.sched = pre ++ (escWrite s data).1.sched) ∧
    (match (escWrite s data).2 with
     | .ok n => n ≤ data.length ∧ (escWrite s data).1.got = s.got ++ escape (data.take n) ∧
                (n = 0 → ∃ t, s.sched = .zero :: t)
     | .interrupted => (escWrite s data).1.got = s.got ∧ (∃ t, s.sched = .interrupted :: t ∧ (escWrite s data).1.sched = t)
     | .err => (∃ k, (escWrite s data).1.got = s.got ++ (escape (data.take 1)).take k) ∧ ¬ Benign s.sched) := by
  unfold escWrite
  simp only
  split
  · next hpos =>
    -- plain run: forwarded to the inner sink's `write`
    have hle := plainLen_le data
    unfold Sink.write
    split
    · next hs =>
      refine ⟨⟨[], by simp [hs]⟩, ?_⟩
      simp only [List.length_take]
      refine ⟨by omega, ?_, by omega⟩
      rw [Nat.min_eq_left hle, escape_take_plain data _ (Nat.le_refl _)]
    · next k t hs =>
      refine ⟨⟨[.accept k], by simp [hs]⟩, ?_⟩
      simp only [List.length_take]
      refine ⟨by omega, ?_, by omega⟩
      have hm : min (k + 1) (min (plainLen data) data.length) ≤ plainLen data := by omega
      rw [List.take_take, Nat.min_eq_left hm, escape_take_plain data _ hm]
    · next t hs =>
      refine ⟨⟨[.zero], by simp [hs]⟩, ?_⟩
      simp only
      exact ⟨by omega, by simp [escape], fun _ => ⟨t, hs⟩⟩
    · next t hs =>
      refine ⟨⟨[.interrupted], by simp [hs]⟩, ?_⟩
      exact ⟨rfl, t, hs, rfl⟩
    · next t hs =>
      refine ⟨⟨[], by simp⟩, ?_⟩
      refine ⟨⟨0, by simp⟩, ?_⟩
      intro hb; rw [hs] at hb; exact absurd rfl (hb .fail (by simp)).1
  · next hzero =>
    cases data with
    | nil => exact absurd rfl hne
    | cons c r =>
      simp only
      have hsp := plainLen_zero_special hzero
      obtain ⟨⟨k, hk⟩, hok, hsuf, hben⟩ := writeAllSink_full s (entity c)
      split
      · next s' heq =>
        rw [heq] at hk hok hsuf
        refine ⟨hsuf, ?_⟩
        simp only [List.length_cons]
        refine ⟨by omega, ?_, by omega⟩
        rw [escape_take_one_special hsp]
        exact hok rfl
      · next s' heq =>
        rw [heq] at hk hsuf hben
        refine ⟨hsuf, ⟨k, ?_⟩, ?_⟩
        · rw [escape_take_one_special hsp]; exact hk
        · intro hb; have := hben hb; simp at this


theorem take_prefix_append (k : Nat) (a b : Bytes) : a.take k = (a ++ b).take (min k a.length) := by
  rw [List.take_append]
  have : min k a.length - a.length = 0 := by omega
  rw [this]
  by_cases h : k ≤ a.length
  · rw [Nat.min_eq_left h]; simp
  · rw [Nat.min_eq_right (by omega)]; simp [List.take_of_length_le (Nat.le_of_not_le h)]

/-- The result record proved about every "write these bytes escaped" operation. -/
structure WSpec (s : Sink) (r : Sink × IoRes) (out : Bytes) : Prop where
  pre : ∃ k, r.1.got = s.got ++ out.take k
  all : r.2 = .ok → r.1.got = s.got ++ out
  suf : ∃ p, s.sched = p ++ r.1.sched
  ben : Benign s.sched → r.2 = .ok

theorem WSpec.benign_after {s r out} (h : WSpec s r out) (hb : Benign s.sched) : Benign r.1.sched := by
  obtain ⟨p, hp⟩ := h.suf
  rw [hp] at hb
  exact benign_of_suffix hb

theorem WSpec.sched_le {s r out} (h : WSpec s r out) : r.1.sched.length ≤ s.sched.length := by
  obtain ⟨p, hp⟩ := h.suf
  rw [hp]; simp

theorem writeAllSink_wspec (s : Sink) (data : Bytes) : WSpec s (writeAllSink s data) data := by
  obtain ⟨a, b, c, d⟩ := writeAllSink_full s data
  exact ⟨a, b, c, d⟩

/-- sequencing two operations that each satisfy `WSpec` -/
theorem WSpec.seq {s : Sink} {r1 : Sink × IoRes} {o1 o2 : Bytes} {r2 : Sink × IoRes}
    (h1 : WSpec s r1 o1) (hok : r1.2 = .ok) (h2 : WSpec r1.1 r2 o2) : WSpec s r2 (o1 ++ o2) := by
  have hg := h1.all hok
  constructor
  · obtain ⟨k, hk⟩ := h2.pre
    refine ⟨o1.length + k, ?_⟩
    rw [hk, hg, List.take_append]
    simp [List.take_of_length_le]
  · intro h; rw [h2.all h, hg]; simp
  · obtain ⟨p1, hp1⟩ := h1.suf
    obtain ⟨p2, hp2⟩ := h2.suf
    exact ⟨p1 ++ p2, by rw [hp1, hp2]; simp⟩
  · intro hb; exact h2.ben (h1.benign_after hb)

/-- an operation that failed part-way is a `WSpec` for any longer output -/
theorem WSpec.fail_extend {s : Sink} {r : Sink × IoRes} {o1 : Bytes} (o2 : Bytes)
    (h1 : WSpec s r o1) (herr : r.2 = .err) : WSpec s r (o1 ++ o2) := by
  constructor
  · obtain ⟨k, hk⟩ := h1.pre
    exact ⟨min k o1.length, by rw [hk, ← take_prefix_append]⟩
  · intro h; rw [herr] at h; cases h
  · exact h1.suf
  · intro hb; have := h1.ben hb; rw [herr] at this; cases this

/-- `write_all` over the escaping writer, for every schedule. -/
theorem escWriteAllGo_spec : ∀ (fuel : Nat) (s : Sink) (data : Bytes),
    2 * s.sched.length + data.length < fuel →
    WSpec s (escWriteAllGo fuel s data) (escape data) := by
  intro fuel
  induction fuel with
  | zero => intro s data h; omega
  | succ fuel ih =>
    intro s data hf
    unfold escWriteAllGo
    by_cases hd : data = []
    · subst hd
      simp only [if_true]
      exact ⟨⟨0, by simp⟩, fun _ => by simp [escape], ⟨[], by simp⟩, fun _ => rfl⟩
    · simp only [hd, if_false]
      obtain ⟨⟨p, hp⟩, hspec⟩ := escWrite_spec s data hd
      have hlen : (escWrite s data).1.sched.length ≤ s.sched.length := by
        have := congrArg List.length hp; simp at this; omega
      cases hw : escWrite s data with
      | mk s' wr =>
        rw [hw] at hspec hp hlen
        simp only at hspec hp hlen
        cases wr with
        | ok n =>
          obtain ⟨hn, hgot, hz⟩ := hspec
          cases n with
          | zero =>
            simp only
            obtain ⟨t, ht⟩ := hz rfl
            refine ⟨⟨0, by simpa [escape] using hgot⟩, (fun h => by cases h), ⟨p, hp⟩, ?_⟩
            intro hb; rw [ht] at hb; exact absurd rfl (hb .zero (by simp)).2
          | succ n =>
            simp only
            have hrec := ih s' (data.drop (n + 1)) (by simp only [List.length_drop]; omega)
            have h1 : WSpec s (s', IoRes.ok) (escape (data.take (n + 1))) :=
              ⟨⟨(escape (data.take (n + 1))).length, by simp [hgot]⟩, fun _ => hgot, ⟨p, hp⟩, fun _ => rfl⟩
            have := WSpec.seq h1 rfl hrec
            rwa [← escape_split] at this
        | interrupted =>
          simp only
          obtain ⟨hgot, t, ht, hst⟩ := hspec
          have hrec := ih s' data (by rw [hst]; rw [ht] at hf; simp at hf; omega)
          have h1 : WSpec s (s', IoRes.ok) [] :=
            ⟨⟨0, by simp [hgot]⟩, fun _ => by simp [hgot], ⟨p, hp⟩, fun _ => rfl⟩
          simpa using WSpec.seq h1 rfl hrec
        | err =>
          simp only
          obtain ⟨⟨k, hk⟩, hnb⟩ := hspec
          have h1 : WSpec s (s', IoRes.err) (escape (data.take 1)) :=
            ⟨⟨k, hk⟩, (fun h => by cases h), ⟨p, hp⟩, fun hb => absurd hb hnb⟩
          have := WSpec.fail_extend (escape (data.drop 1)) h1 rfl
          rwa [← escape_split] at this

theorem escWriteAll_spec (s : Sink) (data : Bytes) : WSpec s (escWriteAll s data) (escape data) :=
  escWriteAllGo_spec _ s data (by omega)

theorem concat_escape (ps : List Bytes) : escape ps.flatten = (ps.map escape).flatten := by
  induction ps with
  | nil => rfl
  | cons p r ih => simp [escape_append, ih]

/-- `write!(ToHtmlEscapingWriter(out), "{self}")`: for every piece list and every schedule. -/
theorem toHtmlDisplay_spec (ps : List Bytes) (s : Sink) :
    WSpec s (toHtmlDisplay ps s) (escape ps.flatten) := by
  induction ps generalizing s with
  | nil => exact ⟨⟨0, by simp [toHtmlDisplay]⟩, fun _ => by simp [toHtmlDisplay, escape], ⟨[], by simp [toHtmlDisplay]⟩, fun _ => rfl⟩
  | cons p r ih =>
    have h1 := escWriteAll_spec s p
    simp only [toHtmlDisplay, List.flatten_cons, escape_append]
    cases hw : escWriteAll s p with
    | mk s' res =>
      rw [hw] at h1
      cases res with
      | ok => simp only; exact WSpec.seq h1 rfl (ih s')
      | err => simp only; exact WSpec.fail_extend _ h1 rfl

/-- `Html(x).to_html(out)`: the pieces reach the sink unescaped. -/
theorem toHtmlRaw_spec (ps : List Bytes) (s : Sink) :
    WSpec s (toHtmlRaw ps s) ps.flatten := by
  induction ps generalizing s with
  | nil => exact ⟨⟨0, by simp [toHtmlRaw]⟩, fun _ => by simp [toHtmlRaw], ⟨[], by simp [toHtmlRaw]⟩, fun _ => rfl⟩
  | cons p r ih =>
    have h1 := writeAllSink_wspec s p
    simp only [toHtmlRaw, List.flatten_cons]
    cases hw : writeAllSink s p with
    | mk s' res =>
      rw [hw] at h1
      cases res with
      | ok => simp only; exact WSpec.seq h1 rfl (ih s')
      | err => simp only; exact WSpec.fail_extend _ h1 rfl

end Esc
