import RucteModel.Statics

/-! Order facts about `bytesLt` and the sorted association list `btInsert` / `btGet`. -/
namespace Ructe
open Nom

/-- strictly ascending under `bytesLt` -/
def StrictSorted : List Bytes → Prop
  | [] => True
  | [_] => True
  | a :: b :: r => bytesLt a b = true ∧ StrictSorted (b :: r)

instance : (l : List Bytes) → Decidable (StrictSorted l)
  | [] => isTrue trivial
  | [_] => isTrue trivial
  | a :: b :: r =>
    match decEq (bytesLt a b) true, instDecidableStrictSorted (b :: r) with
    | isTrue h1, isTrue h2 => isTrue ⟨h1, h2⟩
    | isFalse h1, _ => isFalse (fun h => h1 h.1)
    | _, isFalse h2 => isFalse (fun h => h2 h.2)

theorem bytesLt_irrefl (a : Bytes) : bytesLt a a = false := by
  induction a with
  | nil => rfl
  | cons x r ih => simp [bytesLt, ih, UInt8.lt_irrefl]

theorem bytesLt_trans {a b c : Bytes} (h1 : bytesLt a b = true) (h2 : bytesLt b c = true) : bytesLt a c = true := by
  induction a generalizing b c with
  | nil =>
    cases b with
    | nil => simp [bytesLt] at h1
    | cons y s => cases c with
      | nil => simp [bytesLt] at h2
      | cons z t => simp [bytesLt]
  | cons x r ih =>
    cases b with
    | nil => simp [bytesLt] at h1
    | cons y s => cases c with
      | nil => simp [bytesLt] at h2
      | cons z t =>
        simp only [bytesLt] at h1 h2 ⊢
        simp only [UInt8.lt_iff_toNat_lt] at h1 h2 ⊢
        split at h1
        · split at h2
          · rw [if_pos (by omega)]
          · split at h2
            · cases h2
            · rw [if_pos (by omega)]
        · split at h1
          · cases h1
          · split at h2
            · rw [if_pos (by omega)]
            · split at h2
              · cases h2
              · rw [if_neg (by omega), if_neg (by omega)]
                exact ih h1 h2

theorem bytesLt_trichotomy (a b : Bytes) : bytesLt a b = true ∨ a = b ∨ bytesLt b a = true := by
  induction a generalizing b with
  | nil => cases b <;> simp [bytesLt]
  | cons x r ih =>
    cases b with
    | nil => simp [bytesLt]
    | cons y s =>
      simp only [bytesLt, UInt8.lt_iff_toNat_lt]
      by_cases h1 : x.toNat < y.toNat
      · simp [h1]
      · by_cases h2 : y.toNat < x.toNat
        · simp [h1, h2]
        · have : x = y := UInt8.toNat_inj.mp (by omega)
          subst this
          simp only [h1, if_false, List.cons.injEq, true_and]
          exact ih s

theorem bytesLt_asymm {a b : Bytes} (h : bytesLt a b = true) : bytesLt b a = false := by
  cases h' : bytesLt b a with
  | false => rfl
  | true => have := bytesLt_trans h h'; rw [bytesLt_irrefl] at this; cases this

theorem bytesLt_ne {a b : Bytes} (h : bytesLt a b = true) : a ≠ b := by
  intro e; subst e; rw [bytesLt_irrefl] at h; cases h

/-- not below and not equal means above -/
theorem bytesLt_of_not {a b : Bytes} (h1 : bytesLt a b = false) (h2 : a ≠ b) : bytesLt b a = true := by
  rcases bytesLt_trichotomy a b with h | h | h
  · rw [h1] at h; cases h
  · exact absurd h h2
  · exact h

theorem StrictSorted.tail {a : Bytes} {l : List Bytes} (h : StrictSorted (a :: l)) : StrictSorted l := by
  cases l with
  | nil => trivial
  | cons b r => exact h.2

theorem strictSorted_cons {a : Bytes} {l : List Bytes} :
    StrictSorted (a :: l) ↔ (∀ b ∈ l, bytesLt a b = true) ∧ StrictSorted l := by
  induction l generalizing a with
  | nil => simp [StrictSorted]
  | cons b r ih =>
    constructor
    · intro h
      refine ⟨?_, h.2⟩
      intro c hc
      rcases List.mem_cons.mp hc with e | hc
      · subst e; exact h.1
      · exact bytesLt_trans h.1 ((ih.mp h.2).1 c hc)
    · intro h
      exact ⟨h.1 b (List.mem_cons_self), h.2⟩

theorem strictSorted_iff_pairwise (l : List Bytes) :
    StrictSorted l ↔ l.Pairwise (fun a b => bytesLt a b = true) := by
  induction l with
  | nil => simp [StrictSorted]
  | cons a r ih => rw [strictSorted_cons, List.pairwise_cons, ih]

/-- indexed form of `StrictSorted` -/
theorem StrictSorted.getElem_lt {l : List Bytes} (h : StrictSorted l) {i j : Nat} (hij : i < j) (hj : j < l.length) :
    bytesLt (l[i]'(by omega)) l[j] = true := by
  have := (strictSorted_iff_pairwise l).mp h
  rw [List.pairwise_iff_getElem] at this
  exact this i j (by omega) hj hij

/-! ### `btInsert` / `btGet` -/

theorem mem_keys_btInsert (k v : Bytes) (m : List (Bytes × Bytes)) (x : Bytes) :
    x ∈ (btInsert k v m).map (·.1) ↔ x = k ∨ x ∈ m.map (·.1) := by
  induction m with
  | nil => simp [btInsert]
  | cons p r ih =>
    obtain ⟨k', v'⟩ := p
    simp only [btInsert]
    split
    · simp
    · split
      · next h => subst h; simp
      · simp only [List.map_cons, List.mem_cons, ih]
        constructor
        · rintro (h | h | h) <;> simp [h]
        · rintro (h | h | h) <;> simp [h]

theorem btInsert_sorted (k v : Bytes) (m : List (Bytes × Bytes)) (hs : StrictSorted (m.map (·.1))) :
    StrictSorted ((btInsert k v m).map (·.1)) := by
  induction m with
  | nil => simp [btInsert, StrictSorted]
  | cons p r ih =>
    obtain ⟨k', v'⟩ := p
    simp only [btInsert]
    split
    · next h => exact ⟨h, hs⟩
    · next h1 =>
      split
      · next h => subst h; exact hs
      · next h2 =>
        have hlt : bytesLt k' k = true := bytesLt_of_not (by simpa using h1) h2
        simp only [List.map_cons] at hs ⊢
        rw [strictSorted_cons] at hs ⊢
        refine ⟨?_, ih hs.2⟩
        intro b hb
        rcases (mem_keys_btInsert k v r b).mp hb with e | hb
        · subst e; exact hlt
        · exact hs.1 b hb

theorem btGet_btInsert_self (k v : Bytes) (m : List (Bytes × Bytes)) : btGet k (btInsert k v m) = some v := by
  induction m with
  | nil => simp [btInsert, btGet]
  | cons p r ih =>
    obtain ⟨k', v'⟩ := p
    simp only [btInsert]
    split
    · simp [btGet]
    · split
      · simp [btGet]
      · next h => simp [btGet, h, ih]

theorem btGet_btInsert_ne (k v x : Bytes) (m : List (Bytes × Bytes)) (hx : x ≠ k) :
    btGet x (btInsert k v m) = btGet x m := by
  induction m with
  | nil => simp [btInsert, btGet, hx]
  | cons p r ih =>
    obtain ⟨k', v'⟩ := p
    simp only [btInsert]
    split
    · simp [btGet, hx]
    · split
      · next h => subst h; simp [btGet, hx]
      · simp [btGet, ih]

theorem btGet_some_mem {k v : Bytes} {m : List (Bytes × Bytes)} (h : btGet k m = some v) : (k, v) ∈ m := by
  induction m with
  | nil => simp [btGet] at h
  | cons p r ih =>
    obtain ⟨k', v'⟩ := p
    simp only [btGet] at h
    split at h
    · next e => subst e; cases h; simp
    · exact List.mem_cons_of_mem _ (ih h)

theorem btGet_none_of_not_mem {k : Bytes} {m : List (Bytes × Bytes)} (h : ∀ p ∈ m, p.1 ≠ k) : btGet k m = none := by
  induction m with
  | nil => rfl
  | cons p r ih =>
    obtain ⟨k', v'⟩ := p
    have h1 : k ≠ k' := fun e => h (k', v') (by simp) e.symm
    simp only [btGet, h1, if_false]
    exact ih (fun p hp => h p (List.mem_cons_of_mem _ hp))

theorem btInsert_cons_lt {k k' : Bytes} (v v' : Bytes) (r : List (Bytes × Bytes)) (h : bytesLt k k' = true) :
    btInsert k v ((k', v') :: r) = (k, v) :: (k', v') :: r := by
  simp [btInsert, h]

theorem btInsert_cons_eq (k v v' : Bytes) (r : List (Bytes × Bytes)) :
    btInsert k v ((k, v') :: r) = (k, v) :: r := by
  simp [btInsert, bytesLt_irrefl]

theorem btInsert_cons_gt {k k' : Bytes} (v v' : Bytes) (r : List (Bytes × Bytes)) (h : bytesLt k' k = true) :
    btInsert k v ((k', v') :: r) = (k', v') :: btInsert k v r := by
  simp [btInsert, bytesLt_asymm h, (bytesLt_ne h).symm]

/-- inserts under different keys commute (no sortedness needed) -/
theorem btInsert_comm (k₁ v₁ k₂ v₂ : Bytes) (hne : k₁ ≠ k₂) (m : List (Bytes × Bytes)) :
    btInsert k₁ v₁ (btInsert k₂ v₂ m) = btInsert k₂ v₂ (btInsert k₁ v₁ m) := by
  induction m with
  | nil =>
    have e : ∀ k v, btInsert k v [] = [(k, v)] := fun _ _ => rfl
    rw [e, e]
    rcases bytesLt_trichotomy k₁ k₂ with h | h | h
    · rw [btInsert_cons_lt _ _ _ h, btInsert_cons_gt _ _ _ h, e]
    · exact absurd h hne
    · rw [btInsert_cons_lt _ _ _ h, btInsert_cons_gt _ _ _ h, e]
  | cons p r ih =>
    obtain ⟨k, v⟩ := p
    rcases bytesLt_trichotomy k₁ k with h1 | h1 | h1
    · rcases bytesLt_trichotomy k₂ k with h2 | h2 | h2
      · rw [btInsert_cons_lt _ _ _ h2, btInsert_cons_lt _ _ _ h1]
        rcases bytesLt_trichotomy k₁ k₂ with h | h | h
        · rw [btInsert_cons_lt _ _ _ h, btInsert_cons_gt _ _ _ h, btInsert_cons_lt _ _ _ h2]
        · exact absurd h hne
        · rw [btInsert_cons_lt _ _ _ h, btInsert_cons_gt _ _ _ h, btInsert_cons_lt _ _ _ h1]
      · subst h2
        rw [btInsert_cons_eq, btInsert_cons_lt _ _ _ h1, btInsert_cons_lt _ _ _ h1, btInsert_cons_gt _ _ _ h1,
          btInsert_cons_eq]
      · have h := bytesLt_trans h1 h2
        rw [btInsert_cons_gt _ _ _ h2, btInsert_cons_lt _ _ _ h1, btInsert_cons_lt _ _ _ h1, btInsert_cons_gt _ _ _ h,
          btInsert_cons_gt _ _ _ h2]
    · subst h1
      rcases bytesLt_trichotomy k₂ k₁ with h2 | h2 | h2
      · rw [btInsert_cons_lt _ _ _ h2, btInsert_cons_eq, btInsert_cons_lt _ _ _ h2, btInsert_cons_gt _ _ _ h2,
          btInsert_cons_eq]
      · exact absurd h2.symm hne
      · rw [btInsert_cons_gt _ _ _ h2, btInsert_cons_eq, btInsert_cons_eq, btInsert_cons_gt _ _ _ h2]
    · rcases bytesLt_trichotomy k₂ k with h2 | h2 | h2
      · have h := bytesLt_trans h2 h1
        rw [btInsert_cons_lt _ _ _ h2, btInsert_cons_gt _ _ _ h1, btInsert_cons_lt _ _ _ h2, btInsert_cons_gt _ _ _ h,
          btInsert_cons_gt _ _ _ h1]
      · subst h2
        rw [btInsert_cons_eq, btInsert_cons_gt _ _ _ h1, btInsert_cons_gt _ _ _ h1, btInsert_cons_eq]
      · rw [btInsert_cons_gt _ _ _ h2, btInsert_cons_gt _ _ _ h1, btInsert_cons_gt _ _ _ h1, btInsert_cons_gt _ _ _ h2, ih]

/-- folding inserts over a permutation of operations with pairwise distinct keys gives the same map -/
theorem foldl_btInsert_perm {ops₁ ops₂ : List (Bytes × Bytes)} (hp : ops₁.Perm ops₂)
    (hd : (ops₁.map (·.1)).Nodup) (m : List (Bytes × Bytes)) :
    ops₁.foldl (fun m kv => btInsert kv.1 kv.2 m) m = ops₂.foldl (fun m kv => btInsert kv.1 kv.2 m) m := by
  induction hp generalizing m with
  | nil => rfl
  | cons x _ ih =>
    simp only [List.foldl_cons]
    exact ih (List.nodup_cons.mp hd).2 _
  | swap x y l =>
    simp only [List.foldl_cons]
    rw [btInsert_comm]
    simp only [List.map_cons, List.nodup_cons, List.mem_cons, not_or] at hd
    exact fun e => hd.1.1 e.symm
  | trans h1 _ ih1 ih2 =>
    rw [ih1 hd, ih2 ((h1.map _).nodup_iff.mp hd)]

theorem foldl_btInsert_sorted (ops m : List (Bytes × Bytes)) (hs : StrictSorted (m.map (·.1))) :
    StrictSorted ((ops.foldl (fun m kv => btInsert kv.1 kv.2 m) m).map (·.1)) := by
  induction ops generalizing m with
  | nil => exact hs
  | cons x r ih => exact ih _ (btInsert_sorted _ _ _ hs)

theorem mem_keys_foldl_btInsert (ops m : List (Bytes × Bytes)) (k : Bytes) :
    k ∈ (ops.foldl (fun m kv => btInsert kv.1 kv.2 m) m).map (·.1) ↔ k ∈ ops.map (·.1) ∨ k ∈ m.map (·.1) := by
  induction ops generalizing m with
  | nil => simp
  | cons x r ih =>
    simp only [List.foldl_cons, ih, mem_keys_btInsert, List.map_cons, List.mem_cons]
    constructor
    · rintro (h | h | h) <;> simp [h]
    · rintro ((h | h) | h) <;> simp [h]
end Ructe

namespace Ructe
open Nom

/-- strictly ascending keys are pairwise distinct -/
theorem StrictSorted.nodup {l : List Bytes} (h : StrictSorted l) : l.Nodup := by
  have hp := (strictSorted_iff_pairwise l).mp h
  exact hp.imp (fun hab => bytesLt_ne hab)

/-- after a fold of inserts, `btGet k` is `some u` as soon as `k` was inserted (or was already mapped
to `u`) and every insertion under `k` carried `u` -/
theorem btGet_foldl_btInsert_gen (ops m : List (Bytes × Bytes)) (k u : Bytes)
    (hex : k ∈ ops.map (·.1) ∨ btGet k m = some u) (hall : ∀ p ∈ ops, p.1 = k → p.2 = u) :
    btGet k (ops.foldl (fun m kv => btInsert kv.1 kv.2 m) m) = some u := by
  induction ops generalizing m with
  | nil =>
    rcases hex with h | h
    · simp at h
    · exact h
  | cons x r ih =>
    simp only [List.foldl_cons]
    apply ih
    · by_cases hx : x.1 = k
      · right
        have hv := hall x (List.mem_cons_self) hx
        rw [hx, hv]
        exact btGet_btInsert_self _ _ _
      · rcases hex with h | h
        · simp only [List.map_cons, List.mem_cons] at h
          rcases h with h | h
          · exact absurd h.symm hx
          · left; exact h
        · right
          rw [btGet_btInsert_ne _ _ _ _ (fun e => hx e.symm)]
          exact h
    · intro p hp
      exact hall p (List.mem_cons_of_mem _ hp)

theorem btGet_foldl_btInsert (ops m : List (Bytes × Bytes)) (k u : Bytes)
    (hex : k ∈ ops.map (·.1)) (hall : ∀ p ∈ ops, p.1 = k → p.2 = u) :
    btGet k (ops.foldl (fun m kv => btInsert kv.1 kv.2 m) m) = some u :=
  btGet_foldl_btInsert_gen ops m k u (Or.inl hex) hall
end Ructe
