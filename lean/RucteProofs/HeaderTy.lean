import RucteProofs.HeaderLemmas

/-!
# Source trees of the type grammar of declarations, with explicit layout slots

`Ty ::= &? (L 'name)? L (impl L | dyn L)? (name | [Ty] | (Elems)) (<Elems>)?` and
`Elems ::= (Elem (, Elem)*)? (, ws)?`, `Elem ::= Ty | L 'name`.

`L` is a layout slot (`List C15.Item`: white-space runs and `@* … *@` comments) — one at every place where
the model calls `spacelike`.  The white space after a comma inside a type list (`multispace0` in the model)
needs no slot of its own: the element that follows starts with a layout slot, `multispace0` takes the
white-space items at its front and the `spacelike` of the element takes the rest (`Hdr.multispace0_layout`).
Only the white space after a *trailing* comma is a white-space-only slot (`tr : Option Bytes`).

* `printTy`, `wfTy`, `fuelTy`, `tyFollowB` (what may follow a type);
* `ty_ok` (and `base_ok`, `gen_ok`, `elem_ok`, `more_ok`, `elems_ok`): the induction over the tree.
-/
namespace Ructe.Hdr
open Nom Ructe.C15

abbrev Layout := List Item

/-- `L 'name` -/
structure Lt where
  l : Layout
  b : UInt8
  cs : Bytes

def Lt.print (x : Lt) : Bytes := printLayout x.l ++ 39 :: x.b :: x.cs

/-- `impl L` | `dyn L` | nothing -/
inductive Kw where
  | none
  | impl (l : Layout)
  | dyn (l : Layout)

def Kw.print : Kw → Bytes
  | .none => []
  | .impl l => [105, 109, 112, 108] ++ printLayout l
  | .dyn l => [100, 121, 110] ++ printLayout l

mutual
inductive Ty where
  | mk (amp : Bool) (lt : Option Lt) (l : Layout) (kw : Kw) (base : Base) (gen : Gen)
inductive Base where
  | name (b : UInt8) (cs : Bytes)
  | slice (t : Ty)                                  -- `[` type `]`
  | tuple (es : List Elem) (tr : Option Bytes)      -- `(` elements, optional trailing comma + white space `)`
inductive Gen where
  | none
  | args (es : List Elem) (tr : Option Bytes)       -- `<` elements, optional trailing comma + white space `>`
inductive Elem where
  | ty (t : Ty)
  | lt (x : Lt)
end

/-! ## the printer -/

def ampBytes : Bool → Bytes
  | true => [38]
  | false => []

def ltBytes : Option Lt → Bytes
  | some x => x.print
  | none => []

mutual
def printTy : Ty → Bytes
  | .mk amp lt l kw base gen => ampBytes amp ++ ltBytes lt ++ printLayout l ++ kw.print ++ printBase base ++ printGen gen
def printBase : Base → Bytes
  | .name b cs => b :: cs
  | .slice t => [91] ++ printTy t ++ [93]
  | .tuple es tr => [40] ++ printElems es ++ printTrailing tr ++ [41]
def printGen : Gen → Bytes
  | .none => []
  | .args es tr => [60] ++ printElems es ++ printTrailing tr ++ [62]
def printElem : Elem → Bytes
  | .ty t => printTy t
  | .lt x => x.print
/-- elements separated by commas -/
def printElems : List Elem → Bytes
  | [] => []
  | e :: r => printElem e ++ printMore r
/-- the elements after the first one, each with its comma -/
def printMore : List Elem → Bytes
  | [] => []
  | e :: r => [44] ++ printElem e ++ printMore r
end

/-! ## well-formedness (decidable: Boolean functions) -/

def layoutOkB (l : Layout) : Bool := l.all Item.ok
def nameOkB (b : UInt8) (cs : Bytes) : Bool := C05.isNameStart b && cs.all C05.isNameChar
def Lt.wfB (x : Lt) : Bool := layoutOkB x.l && nameOkB x.b x.cs

def Kw.wfB : Kw → Bool
  | .none => true
  | .impl l => layoutOkB l
  | .dyn l => layoutOkB l

/-- without a keyword, a name must not be `impl…` / `dyn…` continued by nothing or by a digit -/
def baseKwSafe : Kw → Base → Bool
  | .none, .name b cs => kwSafe (b :: cs)
  | _, _ => true

/-- a lifetime must be followed by something that does not continue its name -/
def ltEndOk (lt : Option Lt) (after : Bytes) : Bool :=
  match lt with
  | some x => x.wfB && Src.nameEndB after
  | none => true

mutual
def wfTy : Ty → Bool
  | .mk _ lt l kw base gen =>
    ltEndOk lt (printLayout l ++ kw.print ++ printBase base) && layoutOkB l && kw.wfB && baseKwSafe kw base &&
      wfBase base && wfGen gen
def wfBase : Base → Bool
  | .name b cs => nameOkB b cs
  | .slice t => wfTy t
  | .tuple es tr => wfElems es && trailingOk tr
def wfGen : Gen → Bool
  | .none => true
  | .args es tr => wfElems es && trailingOk tr
def wfElem : Elem → Bool
  | .ty t => wfTy t
  | .lt x => x.wfB
def wfElems : List Elem → Bool
  | [] => true
  | e :: r => wfElem e && wfElems r
end

/-! ## fuel -/

mutual
def fuelTy : Ty → Nat
  | .mk _ _ _ _ base gen => max (fuelBase base) (fuelGen gen) + 1
def fuelBase : Base → Nat
  | .name _ _ => 0
  | .slice t => fuelTy t
  | .tuple es _ => fuelElems es + 1
def fuelGen : Gen → Nat
  | .none => 0
  | .args es _ => fuelElems es + 1
def fuelElem : Elem → Nat
  | .ty t => fuelTy t
  | .lt _ => 1
def fuelElems : List Elem → Nat
  | [] => 1
  | e :: r => max (fuelElem e) (fuelElems r)
end

theorem fuelElems_pos : (es : List Elem) → 1 ≤ fuelElems es
  | [] => by simp [fuelElems]
  | e :: r => by have := fuelElems_pos r; simp only [fuelElems]; omega

/-! ## what may follow a type -/

def Ty.endsInName : Ty → Bool
  | .mk _ _ _ _ (.name _ _) .none => true
  | _ => false

def Ty.hasGen : Ty → Bool
  | .mk _ _ _ _ _ .none => false
  | _ => true

def notLtB : Bytes → Bool
  | 60 :: _ => false
  | _ => true

/-- `rest` may follow the type `t`: it does not continue a final name, and it does not start with `<`
unless the type already has its generic arguments -/
def tyFollowB (t : Ty) (rest : Bytes) : Bool :=
  (!t.endsInName || Src.nameEndB rest) && (t.hasGen || notLtB rest)

/-! ## leading layout and body -/

def leadOf (amp : Bool) (lt : Option Lt) (l : Layout) : Layout :=
  match amp, lt with
  | true, _ => []
  | false, some x => x.l
  | false, none => l

def bodyOf (amp : Bool) (lt : Option Lt) (l : Layout) (tail : Bytes) : Bytes :=
  match amp, lt with
  | true, lt => 38 :: (ltBytes lt ++ (printLayout l ++ tail))
  | false, some x => 39 :: (x.b :: x.cs ++ (printLayout l ++ tail))
  | false, none => tail

def Ty.amp : Ty → Bool
  | .mk amp _ _ _ _ _ => amp

/-- the layout slot a type starts with (none after `&`) -/
def Ty.lead : Ty → Layout
  | .mk amp lt l _ _ _ => leadOf amp lt l

/-- the type without its leading layout -/
def Ty.body : Ty → Bytes
  | .mk amp lt l kw base gen => bodyOf amp lt l (kw.print ++ printBase base ++ printGen gen)

theorem lead_body (amp : Bool) (lt : Option Lt) (l : Layout) (tail : Bytes) :
    ampBytes amp ++ ltBytes lt ++ printLayout l ++ tail = printLayout (leadOf amp lt l) ++ bodyOf amp lt l tail := by
  cases amp <;> cases lt <;> simp [ampBytes, ltBytes, leadOf, bodyOf, Lt.print, printLayout]

theorem printTy_eq (t : Ty) : printTy t = printLayout t.lead ++ t.body := by
  cases t with
  | mk amp lt l kw base gen =>
    simp only [printTy, Ty.lead, Ty.body]
    rw [← lead_body]
    simp

def Elem.lead : Elem → Layout
  | .ty t => t.lead
  | .lt x => x.l

def Elem.body : Elem → Bytes
  | .ty t => t.body
  | .lt x => 39 :: x.b :: x.cs

theorem printElem_eq (e : Elem) : printElem e = printLayout e.lead ++ e.body := by
  cases e with
  | ty t => simp only [printElem, Elem.lead, Elem.body, printTy_eq]
  | lt x => simp only [printElem, Elem.lead, Elem.body, Lt.print]

/-! ## Boolean side conditions as facts -/

theorem layoutOk_of {l : Layout} (h : layoutOkB l = true) : ∀ i ∈ l, i.ok = true := by
  simpa [layoutOkB] using h

theorem nameOk_of {b : UInt8} {cs : Bytes} (h : nameOkB b cs = true) :
    C05.isNameStart b = true ∧ cs.all C05.isNameChar = true := by
  simpa [nameOkB] using h

theorem notLt_of {X : Bytes} (h : notLtB X = true) : ∀ r, X ≠ 60 :: r := by
  intro r e; subst e; simp [notLtB] at h

theorem notLtB_of_nameEnd_false : notLtB (60 :: X) = false := rfl

/-! ## one type, from its parts -/

/-- the head of the text after the layout slot `l`: a keyword, a name, `[` or `(` -/
def TailHead (T : Bytes) : Prop :=
  ∃ c r, T = c :: r ∧ isSpace c = false ∧ c ≠ 64 ∧ c ≠ 39 ∧ c ≠ 38

theorem TailHead.stops {T : Bytes} (h : TailHead T) (X : Bytes) : StopsLayout (T ++ X) := by
  obtain ⟨c, r, rfl, hs, h64, _, _⟩ := h
  exact stopsLayout_cons c _ hs h64

theorem tailHead_nameStart (b : UInt8) (X : Bytes) (hb : C05.isNameStart b = true) : TailHead (b :: X) := by
  have hs := (nameStart_stops b X hb).1 b X rfl
  refine ⟨b, X, rfl, hs, ?_, ?_, ?_⟩ <;> (rintro rfl; simp [C05.isNameStart, isAlpha] at hb)

/-- **assembling a type**: `&`? lifetime? layout, then the keyword slot and base (`hkb`), then the generic
arguments (`hg`); the leading layout may be replaced by any admissible layout `L'` -/
theorem ty_assemble (m : Nat) (amp : Bool) (lt : Option Lt) (l : Layout) (T R rest : Bytes) (g : Option Unit)
    (L' : Layout) (hL' : ∀ i ∈ L', i.ok = true) (hamp : amp = true → L' = [])
    (hlt : ltEndOk lt (printLayout l ++ T) = true) (hl : ∀ i ∈ l, i.ok = true) (hT : TailHead T)
    (hkb : KwBase m (T ++ rest) R) (hg : genP m R = .ok rest g) :
    typeExpression (m + 1) (printLayout L' ++ (bodyOf amp lt l T ++ rest)) = .ok rest () := by
  have hst : StopsLayout (T ++ rest) := hT.stops rest
  have h39 : ∀ r, T ++ rest ≠ 39 :: r := by
    obtain ⟨c, r, rfl, _, _, h, _⟩ := hT
    intro r' e; injection e with e _; exact h e
  have h38 : ∀ r, T ++ rest ≠ 38 :: r := by
    obtain ⟨c, r, rfl, _, _, _, h⟩ := hT
    intro r' e; injection e with e _; exact h e
  -- the part after `&`, with `Lx` as the first layout slot
  have tail_none : ∀ Lx : Layout, (∀ i ∈ Lx, i.ok = true) → TyTail m (printLayout Lx ++ (T ++ rest)) rest :=
    fun Lx hLx => tyTail_plain m (spacelike_slot Lx hLx _ hst) h39 hkb hg
  have tail_some : ∀ (x : Lt) (Lx : Layout), ltEndOk (some x) (printLayout l ++ T) = true → (∀ i ∈ Lx, i.ok = true) →
      TyTail m (printLayout Lx ++ 39 :: (x.b :: x.cs ++ (printLayout l ++ (T ++ rest)))) rest := by
    intro x Lx hx hLx
    simp only [ltEndOk, Lt.wfB, Bool.and_eq_true] at hx
    obtain ⟨hb, hc⟩ := nameOk_of hx.1.2
    have hne : printLayout l ++ T ≠ [] := by
      obtain ⟨c, r, rfl, _⟩ := hT
      simp
    have hW : ∀ c r, printLayout l ++ (T ++ rest) = c :: r → C05.isNameChar c = false := by
      apply nameEnd_of
      rw [← List.append_assoc, nameEndB_append _ _ hne]
      exact hx.2
    exact tyTail_lt m x.b x.cs (spacelike_slot Lx hLx _ (stopsLayout_cons 39 _ (by decide) (by decide)))
      hb hc hW (spacelike_slot l hl _ hst) hkb hg
  cases amp with
  | true =>
    have : L' = [] := hamp rfl
    subst this
    cases lt with
    | none =>
      simp only [bodyOf, ltBytes, printLayout_nil, List.nil_append, List.cons_append, List.append_assoc]
      exact typeExpression_of_tail m (ampP_amp _) (tail_none l hl)
    | some x =>
      have hx := hlt
      simp only [ltEndOk, Lt.wfB, Bool.and_eq_true] at hx
      simp only [bodyOf, ltBytes, Lt.print, printLayout_nil, List.nil_append, List.cons_append, List.append_assoc]
      exact typeExpression_of_tail m (ampP_amp _) (tail_some x x.l hlt (layoutOk_of hx.1.1))
  | false =>
    cases lt with
    | none =>
      simp only [bodyOf]
      exact typeExpression_of_tail m (ampP_none _ (layout_head_ne L' hL' _ 38 (by decide) (by decide) h38))
        (tail_none L' hL')
    | some x =>
      simp only [bodyOf, List.cons_append, List.append_assoc]
      exact typeExpression_of_tail m
        (ampP_none _ (layout_head_ne L' hL' _ 38 (by decide) (by decide)
          (fun r e => by injection e with e _; cases e)))
        (tail_some x L' hlt hL')

/-! ## facts about well-formed types -/

theorem ltEndOk_lead {lt : Option Lt} {after : Bytes} (h : ltEndOk lt after = true) :
    ∀ x, lt = some x → ∀ i ∈ x.l, i.ok = true := by
  intro x e; subst e
  simp only [ltEndOk, Lt.wfB, Bool.and_eq_true] at h
  exact layoutOk_of h.1.1

theorem ltEndOk_append {lt : Option Lt} {A : Bytes} (B : Bytes) (hA : A ≠ []) (h : ltEndOk lt A = true) :
    ltEndOk lt (A ++ B) = true := by
  cases lt with
  | none => rfl
  | some x =>
    simp only [ltEndOk] at h ⊢
    rw [nameEndB_append _ _ hA]; exact h

theorem printBase_head (base : Base) (h : wfBase base = true) :
    ∃ c r, printBase base = c :: r ∧ (C05.isNameStart c = true ∨ c = 91 ∨ c = 40) := by
  cases base with
  | name b cs => exact ⟨b, cs, by simp [printBase], .inl (nameOk_of (by simpa [wfBase] using h)).1⟩
  | slice t => exact ⟨91, printTy t ++ [93], by simp [printBase], .inr (.inl rfl)⟩
  | tuple es tr => exact ⟨40, printElems es ++ printTrailing tr ++ [41], by simp [printBase], .inr (.inr rfl)⟩

theorem tailHead_of_base {B : Bytes} (h : ∃ c r, B = c :: r ∧ (C05.isNameStart c = true ∨ c = 91 ∨ c = 40)) (X : Bytes) :
    TailHead (B ++ X) := by
  obtain ⟨c, r, rfl, hc⟩ := h
  rcases hc with hc | rfl | rfl
  · exact tailHead_nameStart c _ hc
  · exact ⟨91, _, rfl, by decide, by decide, by decide, by decide⟩
  · exact ⟨40, _, rfl, by decide, by decide, by decide, by decide⟩

theorem tailHead_ty (kw : Kw) (base : Base) (gen : Gen) (h : wfBase base = true) :
    TailHead (kw.print ++ printBase base ++ printGen gen) := by
  cases kw with
  | none =>
    simp only [Kw.print, List.nil_append]
    exact tailHead_of_base (printBase_head base h) _
  | impl l =>
    exact ⟨105, 109 :: 112 :: 108 :: (printLayout l ++ (printBase base ++ printGen gen)), by simp [Kw.print],
      by decide, by decide, by decide, by decide⟩
  | dyn l =>
    exact ⟨100, 121 :: 110 :: (printLayout l ++ (printBase base ++ printGen gen)), by simp [Kw.print],
      by decide, by decide, by decide, by decide⟩

theorem wfTy_lead (t : Ty) (h : wfTy t = true) : ∀ i ∈ t.lead, i.ok = true := by
  cases t with
  | mk amp lt l kw base gen =>
    simp only [wfTy, Bool.and_eq_true] at h
    obtain ⟨⟨⟨⟨⟨hlt, hl⟩, _⟩, _⟩, _⟩, _⟩ := h
    cases amp with
    | true => simp [Ty.lead, leadOf]
    | false =>
      cases lt with
      | none => simpa [Ty.lead, leadOf] using layoutOk_of hl
      | some x => simpa [Ty.lead, leadOf] using ltEndOk_lead hlt x rfl

theorem amp_lead (t : Ty) (h : t.amp = true) : t.lead = [] := by
  cases t with
  | mk amp lt l kw base gen =>
    simp only [Ty.amp] at h
    subst h
    simp [Ty.lead, leadOf]

theorem body_head (t : Ty) (h : wfTy t = true) : ∃ c r, t.body = c :: r ∧ isSpace c = false ∧ c ≠ 64 := by
  cases t with
  | mk amp lt l kw base gen =>
    simp only [wfTy, Bool.and_eq_true] at h
    obtain ⟨⟨_, hbase⟩, _⟩ := h
    cases amp with
    | true => exact ⟨38, _, rfl, by decide, by decide⟩
    | false =>
      cases lt with
      | some x => exact ⟨39, _, rfl, by decide, by decide⟩
      | none =>
        obtain ⟨c, r, e, hs, h64, _⟩ := tailHead_ty kw base gen hbase
        exact ⟨c, r, by simp [Ty.body, bodyOf, e], hs, h64⟩

/-- a comma or a closing delimiter may follow every type -/
theorem tyFollow_of (t : Ty) (c : UInt8) (X : Bytes) (hc : c = 44 ∨ c = 41 ∨ c = 62 ∨ c = 93) :
    tyFollowB t (c :: X) = true := by
  have h1 : Src.nameEndB (c :: X) = true := by
    show (!C05.isNameChar c) = true
    rcases hc with rfl | rfl | rfl | rfl <;> decide
  have h2 : notLtB (c :: X) = true := by rcases hc with rfl | rfl | rfl | rfl <;> rfl
  simp [tyFollowB, h1, h2]

theorem tyFollow_ef (t : Ty) {X : Bytes} (h : EF X) : tyFollowB t X = true := by
  obtain ⟨c, r, rfl, hc⟩ := h
  exact tyFollow_of t c r (by rcases hc with h | h | h <;> simp [h])

/-- a lifetime as an element of a type list: `type_expression` fails on it, `lifetime` takes it -/
theorem lt_elemParses (k : Nat) (x : Lt) (hx : x.wfB = true) : ElemParses (k + 1) x.l (39 :: x.b :: x.cs) := by
  simp only [Lt.wfB, Bool.and_eq_true] at hx
  obtain ⟨hb, hc⟩ := nameOk_of hx.2
  refine ⟨layoutOk_of hx.1, ⟨39, _, rfl, by decide⟩, ?_⟩
  intro L' hL' _ X hX
  have hs : spacelike (printLayout L' ++ (39 :: x.b :: x.cs ++ X)) = .ok (39 :: (x.b :: x.cs ++ X)) () :=
    spacelike_slot L' hL' _ (stopsLayout_cons 39 _ (by decide) (by decide))
  have hlt := lifetime_ok x.b x.cs hs hb hc (ef_nameEnd hX)
  have h1 := ampP_none _ (layout_head_ne L' hL' (39 :: x.b :: x.cs ++ X) 38 (by decide) (by decide)
    (fun r e => by injection e with e _; cases e))
  obtain ⟨c, r, rfl, hcc⟩ := hX
  have hst : StopsLayout (c :: r) := ef_stops ⟨c, r, rfl, hcc⟩
  have h3 : delimited spacelike kwAlt spacelike (c :: r) = .ok (c :: r) [] :=
    kwSlot_other c r (spacelike_stop _ hst) (by rcases hcc with rfl | rfl | rfl <;> decide)
      (by rcases hcc with rfl | rfl | rfl <;> decide) hst
  obtain ⟨e, h4⟩ := baseP_fail k c r (by rcases hcc with rfl | rfl | rfl <;> decide)
    (by rcases hcc with rfl | rfl | rfl <;> decide) (by rcases hcc with rfl | rfl | rfl <;> decide)
  have hty : typeExpression (k + 1) (printLayout L' ++ (39 :: x.b :: x.cs ++ c :: r)) = .err e := by
    rw [typeExpression_eq]
    exact value_err () (seq_err_right h1 (seq_err_right (opt_of hlt) (seq_err_right h3 (seq_err_left h4))))
  simp only [elemP]
  rw [alt_cons_err hty, alt_one]
  exact hlt

theorem printMore_cons (e : Elem) (r : List Elem) (fin : Bytes) :
    printMore (e :: r) ++ fin = 44 :: (printLayout e.lead ++ e.body ++ (printMore r ++ fin)) := by
  simp [printMore, printElem_eq]

theorem printElems_cons (e : Elem) (r : List Elem) (fin : Bytes) :
    printElems (e :: r) ++ fin = printLayout e.lead ++ e.body ++ (printMore r ++ fin) := by
  simp [printElems, printElem_eq]

/-! ## the induction over the tree -/

mutual
/-- a well-formed type, with any admissible layout in place of its leading layout, followed by `rest` -/
theorem ty_ok : (t : Ty) → ∀ (n : Nat) (rest : Bytes) (L' : Layout), wfTy t = true → tyFollowB t rest = true →
    fuelTy t ≤ n → (∀ i ∈ L', i.ok = true) → (t.amp = true → L' = []) →
    typeExpression n (printLayout L' ++ (t.body ++ rest)) = .ok rest ()
  | .mk amp lt l kw base gen => fun n rest L' hwf hfol hfuel hL' hamp => by
    simp only [wfTy, Bool.and_eq_true] at hwf
    obtain ⟨⟨⟨⟨⟨hlt, hl⟩, hkw⟩, hsafe⟩, hbase⟩, hgen⟩ := hwf
    simp only [fuelTy] at hfuel
    obtain ⟨m, rfl⟩ : ∃ m, n = m + 1 := ⟨n - 1, by omega⟩
    -- generic arguments
    have hnotLt : gen = .none → ∀ r, rest ≠ 60 :: r := by
      intro e; subst e
      simp only [tyFollowB, Ty.hasGen, Bool.false_or, Bool.and_eq_true] at hfol
      exact notLt_of hfol.2
    obtain ⟨g, hg⟩ := gen_ok gen m rest hgen (by omega) hnotLt
    -- what follows the base does not continue a name
    have hRname : ∀ nb cs, base = .name nb cs → ∀ c r, printGen gen ++ rest = c :: r → C05.isNameChar c = false := by
      intro nb cs e
      subst e
      cases gen with
      | none =>
        simp only [tyFollowB, Ty.endsInName, Bool.not_true, Bool.false_or, Bool.and_eq_true] at hfol
        simpa [printGen] using nameEnd_of rest hfol.1
      | args es tr =>
        intro c r e
        simp only [printGen, List.cons_append, List.append_assoc, List.nil_append] at e
        injection e with e _; subst e; decide
    have hb := base_ok base m (printGen gen ++ rest) hbase (by omega) hRname
    have hBst : StopsLayout (printBase base ++ (printGen gen ++ rest)) :=
      (tailHead_of_base (printBase_head base hbase) _).stops []  |> fun h => by simpa using h
    -- the keyword slot and the base
    have hkb : KwBase m ((kw.print ++ printBase base ++ printGen gen) ++ rest) (printGen gen ++ rest) := by
      cases kw with
      | none =>
        simp only [Kw.print, List.nil_append, List.append_assoc]
        cases base with
        | name b cs =>
          obtain ⟨hnb, hnc⟩ := nameOk_of (by simpa [wfBase] using hbase)
          simp only [printBase]
          exact kwBase_name m b cs _ hnb hnc (by simpa [baseKwSafe] using hsafe) (hRname b cs rfl)
        | slice t =>
          simp only [printBase, List.cons_append, List.nil_append, List.append_assoc] at hb ⊢
          exact kwBase_open m 91 _ _ (.inl rfl) hb
        | tuple es tr =>
          simp only [printBase, List.cons_append, List.nil_append, List.append_assoc] at hb ⊢
          exact kwBase_open m 40 _ _ (.inr rfl) hb
      | impl l2 =>
        simp only [Kw.print, List.cons_append, List.nil_append, List.append_assoc]
        exact kwBase_impl m l2 (layoutOk_of (by simpa [Kw.wfB] using hkw)) _ _ hBst hb
      | dyn l2 =>
        simp only [Kw.print, List.cons_append, List.nil_append, List.append_assoc]
        exact kwBase_dyn m l2 (layoutOk_of (by simpa [Kw.wfB] using hkw)) _ _ hBst hb
    have hne : printLayout l ++ kw.print ++ printBase base ≠ [] := by
      obtain ⟨c, r, e, _⟩ := printBase_head base hbase
      rw [e]; simp
    have hlt' : ltEndOk lt (printLayout l ++ (kw.print ++ printBase base ++ printGen gen)) = true := by
      have := ltEndOk_append (printGen gen) hne hlt
      simpa [List.append_assoc] using this
    exact ty_assemble m amp lt l (kw.print ++ printBase base ++ printGen gen) _ rest g L' hL' hamp hlt'
      (layoutOk_of hl) (tailHead_ty kw base gen hbase) hkb hg
/-- the base of a type -/
theorem base_ok : (b : Base) → ∀ (n : Nat) (R : Bytes), wfBase b = true → fuelBase b ≤ n →
    (∀ nb cs, b = .name nb cs → ∀ c r, R = c :: r → C05.isNameChar c = false) →
    baseP n (printBase b ++ R) = .ok R ()
  | .name b cs => fun n R hwf _ hR => by
    obtain ⟨hnb, hnc⟩ := nameOk_of (by simpa [wfBase] using hwf)
    exact baseP_name n b cs R hnb hnc (hR b cs rfl)
  | .slice t => fun n R hwf hfuel _ => by
    simp only [wfBase] at hwf
    simp only [fuelBase] at hfuel
    have := ty_ok t n (93 :: R) t.lead hwf (tyFollow_of t 93 R (by simp)) hfuel (wfTy_lead t hwf) (amp_lead t)
    have e : printBase (.slice t) ++ R = 91 :: (printTy t ++ 93 :: R) := by simp [printBase]
    rw [e]
    exact baseP_slice n (printTy t) R (by rw [printTy_eq, List.append_assoc]; exact this)
  | .tuple es tr => fun n R hwf hfuel _ => by
    simp only [wfBase, Bool.and_eq_true] at hwf
    simp only [fuelBase] at hfuel
    obtain ⟨k, rfl⟩ : ∃ k, n = k + 1 := ⟨n - 1, by omega⟩
    have := elems_ok es k tr 41 R hwf.1 hwf.2 (by omega) (.inl rfl)
    have e : printBase (.tuple es tr) ++ R = 40 :: ((printElems es ++ printTrailing tr) ++ 41 :: R) := by
      simp [printBase]
    rw [e]
    exact baseP_tuple (k + 1) _ R (by rw [List.append_assoc]; exact this)
/-- the generic arguments of a type -/
theorem gen_ok : (g : Gen) → ∀ (n : Nat) (rest : Bytes), wfGen g = true → fuelGen g ≤ n →
    (g = .none → ∀ r, rest ≠ 60 :: r) → ∃ o, genP n (printGen g ++ rest) = .ok rest o
  | .none => fun n rest _ _ h => ⟨none, by simpa [printGen] using genP_none n rest (h rfl)⟩
  | .args es tr => fun n rest hwf hfuel _ => by
    simp only [wfGen, Bool.and_eq_true] at hwf
    simp only [fuelGen] at hfuel
    obtain ⟨k, rfl⟩ : ∃ k, n = k + 1 := ⟨n - 1, by omega⟩
    have := elems_ok es k tr 62 rest hwf.1 hwf.2 (by omega) (.inr rfl)
    have e : printGen (.args es tr) ++ rest = 60 :: ((printElems es ++ printTrailing tr) ++ 62 :: rest) := by
      simp [printGen]
    rw [e]
    exact ⟨some (), genP_args (k + 1) _ rest (by rw [List.append_assoc]; exact this)⟩
/-- one element of a type list -/
theorem elem_ok : (e : Elem) → ∀ (k : Nat), wfElem e = true → fuelElem e ≤ k → ElemParses k e.lead e.body
  | .ty t => fun k hwf hfuel => by
    simp only [wfElem] at hwf
    simp only [fuelElem] at hfuel
    obtain ⟨c0, r0, hb0, hs0, _⟩ := body_head t hwf
    refine ⟨wfTy_lead t hwf, ⟨c0, r0, hb0, hs0⟩, ?_⟩
    intro L' hL' hlead X hX
    simp only [elemP, Elem.body]
    exact alt_cons_ok (ty_ok t k X L' hwf (tyFollow_ef t hX) hfuel hL' (fun h => hlead (amp_lead t h)))
  | .lt x => fun k hwf hfuel => by
    simp only [wfElem] at hwf
    simp only [fuelElem] at hfuel
    obtain ⟨k', rfl⟩ : ∃ k', k = k' + 1 := ⟨k - 1, by omega⟩
    exact lt_elemParses k' x hwf
/-- the elements after the first one -/
theorem more_ok : (r : List Elem) → ∀ (k : Nat) (fin : Bytes), wfElems r = true → fuelElems r ≤ k →
    LoopOk k fin fin → LoopOk k (printMore r ++ fin) fin
  | [] => fun _ _ _ _ h => by simpa [printMore] using h
  | e :: r => fun k fin hwf hfuel hfin => by
    simp only [wfElems, Bool.and_eq_true] at hwf
    simp only [fuelElems] at hfuel
    rw [printMore_cons]
    exact loop_step k e.lead e.body _ fin (elem_ok e k hwf.1 (by omega)) (more_ok r k fin hwf.2 (by omega) hfin)
/-- a whole type list in front of its closing delimiter -/
theorem elems_ok : (es : List Elem) → ∀ (k : Nat) (tr : Option Bytes) (c : UInt8) (rest : Bytes),
    wfElems es = true → trailingOk tr = true → fuelElems es ≤ k → (c = 41 ∨ c = 62) →
    commaTypeExpressions (k + 1) (printElems es ++ (printTrailing tr ++ c :: rest)) = .ok (c :: rest) ()
  | [] => fun k tr c rest _ ht hfuel hc => by
    simp only [fuelElems] at hfuel
    obtain ⟨k', rfl⟩ : ∃ k', k = k' + 1 := ⟨k - 1, by omega⟩
    simpa [printElems] using commaTypes_nil k' tr c rest ht hc
  | e :: r => fun k tr c rest hwf ht hfuel hc => by
    simp only [wfElems, Bool.and_eq_true] at hwf
    simp only [fuelElems] at hfuel
    have hpos := fuelElems_pos r
    obtain ⟨k', rfl⟩ : ∃ k', k = k' + 1 := ⟨k - 1, by omega⟩
    rw [printElems_cons]
    exact commaTypes_cons (k' + 1) e.lead e.body _ tr c rest (elem_ok e (k' + 1) hwf.1 (by omega)) ht hc
      (more_ok r (k' + 1) _ hwf.2 (by omega) (loop_fin k' tr ht c rest hc))
end

end Ructe.Hdr
