import RucteModel.Tpl
import RucteProps.C15
import RucteProps.C05Complete
import RucteProps.C01Nodes

/-!
# Source trees of the documented template syntax, with explicit layout slots

`Node` is the documented body syntax of a ructe template: text, the three escapes, comments,
`@name`, `@name(group)`, `@(group)`, `@if` chains (with `else` and `else if`), `@for`, `@match` and
`@:name(args)`.  Every place where the grammar calls `spacelike` carries an explicit layout slot
(`List C15.Item`: white-space runs and `@* … *@` comments).

* `printNodes`   : the source text of a tree;
* `astNodes`     : the tree (`TExpr`) the parser is documented to produce (layout-free);
* `fuelNodes`    : the fuel the model parser needs;
* `WF ns follow` : the explicit side conditions under which the print of `ns`, followed by the bytes
  `follow`, is parsed back to `astNodes ns` (every condition is decidable on concrete data, except
  `C05.Stops`, for which `nameFollowB` is a decidable sufficient test);
* `eraseNodes`   : the same tree with every layout slot emptied (`sameShape`).
-/
namespace Ructe.Src
open Nom Ructe.C15

abbrev Layout := List Item

mutual
inductive Node where
  | text (t : Bytes)
  | escAt                                   -- `@@`
  | escOpen                                 -- `@{`
  | escClose                                -- `@}`
  | comment (body : Bytes)                  -- `@*` body `*@`
  | name (b : UInt8) (cs : Bytes)           -- `@name`
  | nameCall (b : UInt8) (cs : Bytes) (g : List C05.Grp)   -- `@name(group)`
  | paren (g : List C05.Grp)                -- `@(group)`
  | ifNode (c : IfChain)                    -- `@if ` chain
  | forIn (l₁ : Layout) (pb : UInt8) (pcs : Bytes) (l₂ l₃ : Layout) (ib : UInt8) (ics : Bytes) (l₄ : Layout)
      (body : List Node)                    -- `@for ` L1 pat L2 `in` L3 iter L4 `{` body `}`
  | matchOn (l₀ : Layout) (eb : UInt8) (ecs : Bytes) (l₁ : Layout) (arms : List Arm) (lEnd : Layout)
                                            -- `@match ` L0 e L1 `{` arms LEnd `}`
  | call (nb : UInt8) (ncs : Bytes) (args : List Arg)      -- `@:name(` args `)`
/-- what follows `@if `: L1 cond L2 `{` body `}`, then nothing, or L3 `else` L4 `{` body2 `}`, or
L3 `else` L4 `if` followed by another chain -/
inductive IfChain where
  | last (l₁ : Layout) (b : UInt8) (cs : Bytes) (l₂ : Layout) (body : List Node)
  | els (l₁ : Layout) (b : UInt8) (cs : Bytes) (l₂ : Layout) (body : List Node) (l₃ l₄ : Layout) (body2 : List Node)
  | elif (l₁ : Layout) (b : UInt8) (cs : Bytes) (l₂ : Layout) (body : List Node) (l₃ l₄ : Layout) (next : IfChain)
/-- one match arm: L1 pat L2 `=>` L3 `{` body `}` -/
inductive Arm where
  | mk (l₁ : Layout) (pb : UInt8) (pcs : Bytes) (l₂ l₃ : Layout) (body : List Node)
/-- one call argument, with the layout `pre` that follows the comma in front of it (the first
argument of a call must have none): a Rust name, or `{` body `}` followed by layout -/
inductive Arg where
  | rust (pre : Layout) (b : UInt8) (cs : Bytes)
  | block (pre : Layout) (body : List Node) (after : Layout)
end

def Arg.pre : Arg → Layout
  | .rust pre _ _ => pre
  | .block pre _ _ => pre

/-! ## the printer -/

mutual
def printNode : Node → Bytes
  | .text t => t
  | .escAt => [64, 64]
  | .escOpen => [64, 123]
  | .escClose => [64, 125]
  | .comment body => [64, 42] ++ body ++ [42, 64]
  | .name b cs => 64 :: b :: cs
  | .nameCall b cs g => 64 :: (b :: cs ++ [40] ++ C05.Grp.printL g ++ [41])
  | .paren g => [64, 40] ++ C05.Grp.printL g ++ [41]
  | .ifNode c => [64, 105, 102, 32] ++ printChain c
  | .forIn l₁ pb pcs l₂ l₃ ib ics l₄ body =>
    [64, 102, 111, 114, 32] ++ printLayout l₁ ++ (pb :: pcs) ++ printLayout l₂ ++ [105, 110] ++ printLayout l₃ ++
      (ib :: ics) ++ printLayout l₄ ++ [123] ++ printNodes body ++ [125]
  | .matchOn l₀ eb ecs l₁ arms lEnd =>
    [64, 109, 97, 116, 99, 104, 32] ++ printLayout l₀ ++ (eb :: ecs) ++ printLayout l₁ ++ [123] ++ printArms arms ++
      printLayout lEnd ++ [125]
  | .call nb ncs args => [64, 58] ++ (nb :: ncs) ++ [40] ++ printArgs args ++ [41]
def printNodes : List Node → Bytes
  | [] => []
  | x :: r => printNode x ++ printNodes r
def printChain : IfChain → Bytes
  | .last l₁ b cs l₂ body => printLayout l₁ ++ (b :: cs) ++ printLayout l₂ ++ [123] ++ printNodes body ++ [125]
  | .els l₁ b cs l₂ body l₃ l₄ body2 =>
    printLayout l₁ ++ (b :: cs) ++ printLayout l₂ ++ [123] ++ printNodes body ++ [125] ++
      printLayout l₃ ++ [101, 108, 115, 101] ++ printLayout l₄ ++ [123] ++ printNodes body2 ++ [125]
  | .elif l₁ b cs l₂ body l₃ l₄ next =>
    printLayout l₁ ++ (b :: cs) ++ printLayout l₂ ++ [123] ++ printNodes body ++ [125] ++
      printLayout l₃ ++ [101, 108, 115, 101] ++ printLayout l₄ ++ [105, 102] ++ printChain next
def printArm : Arm → Bytes
  | .mk l₁ pb pcs l₂ l₃ body =>
    printLayout l₁ ++ (pb :: pcs) ++ printLayout l₂ ++ [61, 62] ++ printLayout l₃ ++ [123] ++ printNodes body ++ [125]
def printArms : List Arm → Bytes
  | [] => []
  | a :: r => printArm a ++ printArms r
/-- an argument with the layout in front of it -/
def printArg : Arg → Bytes
  | .rust pre b cs => printLayout pre ++ (b :: cs)
  | .block pre body after => printLayout pre ++ [123] ++ printNodes body ++ [125] ++ printLayout after
/-- the arguments after the first one, each with its comma -/
def printMore : List Arg → Bytes
  | [] => []
  | a :: r => [44] ++ printArg a ++ printMore r
def printArgs : List Arg → Bytes
  | [] => []
  | a :: r => printArg a ++ printMore r
end

/-! ## the intended tree -/

mutual
def astNode : Node → TExpr
  | .text t => .text t
  | .escAt => .text [64]
  | .escOpen => .text [123]
  | .escClose => .text [125]
  | .comment _ => .comment
  | .name b cs => .expr (b :: cs)
  | .nameCall b cs g => .expr (b :: cs ++ [40] ++ C05.Grp.printL g ++ [41])
  | .paren g => .expr ([40] ++ C05.Grp.printL g ++ [41])
  | .ifNode c => astChain c
  | .forIn _ pb pcs _ _ ib ics _ body => .forLoop (pb :: pcs) (ib :: ics) (astNodes body)
  | .matchOn _ eb ecs _ arms _ => .matchBlock (eb :: ecs) (astArms arms)
  | .call nb ncs args => .call (nb :: ncs) (astArgs args)
def astNodes : List Node → List TExpr
  | [] => []
  | x :: r => astNode x :: astNodes r
def astChain : IfChain → TExpr
  | .last _ b cs _ body => .ifBlock (b :: cs) (astNodes body) none
  | .els _ b cs _ body _ _ body2 => .ifBlock (b :: cs) (astNodes body) (some (astNodes body2))
  | .elif _ b cs _ body _ _ next => .ifBlock (b :: cs) (astNodes body) (some [astChain next])
def astArm : Arm → Bytes × List TExpr
  | .mk _ pb pcs _ _ body => (pb :: pcs, astNodes body)
def astArms : List Arm → List (Bytes × List TExpr)
  | [] => []
  | a :: r => astArm a :: astArms r
def astArg : Arg → TArg
  | .rust _ b cs => .rust (b :: cs)
  | .block _ body _ => .body (astNodes body)
def astArgs : List Arg → List TArg
  | [] => []
  | a :: r => astArg a :: astArgs r
end

/-! ## fuel

`fuelNodes ns` is the fuel at which the loop's `templateExpression` must run. -/

mutual
def fuelNode : Node → Nat
  | .text _ | .escAt | .escOpen | .escClose | .comment _ => 1
  | .name _ _ => 4
  | .nameCall _ _ g => 2 * C05.Grp.depthL g + 5
  | .paren g => 2 * C05.Grp.depthL g + 3
  | .ifNode c => fuelChain c + 1
  | .forIn _ _ _ _ _ _ _ _ body => max (fuelNodes body + 3) 5
  | .matchOn _ _ _ _ arms _ => max (fuelArms arms + 1) 4
  | .call _ _ args => max (fuelArgs args + 2) 4
def fuelNodes : List Node → Nat
  | [] => 0
  | x :: r => max (fuelNode x) (fuelNodes r)
/-- fuel of `if2` -/
def fuelChain : IfChain → Nat
  | .last _ _ _ _ body => max (fuelNodes body + 2) 4
  | .els _ _ _ _ body _ _ body2 => max (max (fuelNodes body) (fuelNodes body2) + 2) 4
  | .elif _ _ _ _ body _ _ next => max (max (fuelNodes body + 2) 4) (fuelChain next + 1)
/-- fuel of the arm parser (`expression n`, `templateBlock n`) -/
def fuelArm : Arm → Nat
  | .mk _ _ _ _ _ body => max (fuelNodes body + 1) 3
def fuelArms : List Arm → Nat
  | [] => 0
  | a :: r => max (fuelArm a) (fuelArms r)
/-- `n` such that `templateArgument (n + 1)` takes the argument -/
def fuelArg : Arg → Nat
  | .rust _ _ _ => 3
  | .block _ body _ => max (fuelNodes body) 1
def fuelArgs : List Arg → Nat
  | [] => 0
  | a :: r => max (fuelArg a) (fuelArgs r)
end

/-! ## well-formedness -/

/-- every item of a layout slot is admissible -/
abbrev LayoutOk (l : Layout) : Prop := ∀ i ∈ l, i.ok = true

/-- a plain Rust name -/
def NameOk (b : UInt8) (cs : Bytes) : Prop := C05.isNameStart b = true ∧ cs.all C05.isNameChar = true

instance (b : UInt8) (cs : Bytes) : Decidable (NameOk b cs) := by unfold NameOk; infer_instance

/-- what may follow a text node: the end of input, or one of `@`, `{`, `}` -/
def textEndB : Bytes → Bool
  | [] => true
  | b :: _ => b == 64 || b == 123 || b == 125

/-- what follows does not continue a name -/
def nameEndB : Bytes → Bool
  | [] => true
  | c :: _ => !C05.isNameChar c

/-- the input after `@` is not one of the keywords `if `, `for `, `match ` -/
def noKeywordB : Bytes → Bool
  | 105 :: 102 :: 32 :: _ => false
  | 102 :: 111 :: 114 :: 32 :: _ => false
  | 109 :: 97 :: 116 :: 99 :: 104 :: 32 :: _ => false
  | _ => true

/-- what follows an `@if` without `else` is not taken as an `else` branch: after layout it does not
continue with `else`, or that `else` is followed (after layout) neither by `{` nor by `if` -/
def noElseB (follow : Bytes) : Bool :=
  match spacelike follow with
  | .ok r _ =>
    match isPrefix [101, 108, 115, 101] r with
    | none => true
    | some r' =>
      match spacelike r' with
      | .ok (123 :: _) _ => false
      | .ok (105 :: 102 :: _) _ => false
      | _ => true
  | _ => true

/-- a condition: a plain name that does not start with `let` -/
def CondOk (b : UInt8) (cs : Bytes) : Prop := NameOk b cs ∧ (b :: cs).take 3 ≠ [108, 101, 116]

instance (b : UInt8) (cs : Bytes) : Decidable (CondOk b cs) := by unfold CondOk; infer_instance

/-- documented group content: well-formed and valid UTF-8 -/
def GroupOk (g : List C05.Grp) : Prop := C05.Grp.wfL g = true ∧ validUtf8 (C05.Grp.printL g) = true

instance (g : List C05.Grp) : Decidable (GroupOk g) := by unfold GroupOk; infer_instance

mutual
/-- `WFNode x follow`: the side conditions for the node `x` when its print is followed by `follow` -/
def WFNode : Node → Bytes → Prop
  | .text t, follow => t ≠ [] ∧ C01.plainText t = true ∧ validUtf8 t = true ∧ textEndB follow = true
  | .escAt, _ => True
  | .escOpen, _ => True
  | .escClose, _ => True
  | .comment body, _ => noStarAt (body ++ [42]) = true
  | .name b cs, follow => NameOk b cs ∧ noKeywordB (b :: cs ++ follow) = true ∧ nameEndB follow = true ∧ C05.Stops follow
  | .nameCall b cs g, follow => NameOk b cs ∧ GroupOk g ∧ C05.Stops follow
  | .paren g, _ => GroupOk g
  | .ifNode c, follow => WFChain c follow
  | .forIn l₁ pb pcs l₂ l₃ ib ics l₄ body, follow =>
    LayoutOk l₁ ∧ LayoutOk l₂ ∧ LayoutOk l₃ ∧ LayoutOk l₄ ∧ l₂ ≠ [] ∧ l₄ ≠ [] ∧ NameOk pb pcs ∧ NameOk ib ics ∧
      WF body (125 :: follow)
  | .matchOn l₀ eb ecs l₁ arms lEnd, follow =>
    LayoutOk l₀ ∧ LayoutOk l₁ ∧ LayoutOk lEnd ∧ l₁ ≠ [] ∧ NameOk eb ecs ∧ WFArms arms (printLayout lEnd ++ 125 :: follow)
  | .call nb ncs args, follow => NameOk nb ncs ∧ WFArgs args (41 :: follow)
/-- `WF ns follow`: every node is well-formed with respect to what follows it -/
def WF : List Node → Bytes → Prop
  | [], _ => True
  | x :: r, follow => WFNode x (printNodes r ++ follow) ∧ WF r follow
def WFChain : IfChain → Bytes → Prop
  | .last l₁ b cs l₂ body, follow =>
    LayoutOk l₁ ∧ LayoutOk l₂ ∧ l₂ ≠ [] ∧ CondOk b cs ∧ WF body (125 :: follow) ∧ noElseB follow = true
  | .els l₁ b cs l₂ body l₃ l₄ body2, follow =>
    LayoutOk l₁ ∧ LayoutOk l₂ ∧ l₂ ≠ [] ∧ CondOk b cs ∧ LayoutOk l₃ ∧ LayoutOk l₄ ∧
      WF body (125 :: (printLayout l₃ ++ 101 :: 108 :: 115 :: 101 :: (printLayout l₄ ++ 123 :: (printNodes body2 ++ 125 :: follow)))) ∧
      WF body2 (125 :: follow)
  | .elif l₁ b cs l₂ body l₃ l₄ next, follow =>
    LayoutOk l₁ ∧ LayoutOk l₂ ∧ l₂ ≠ [] ∧ CondOk b cs ∧ LayoutOk l₃ ∧ LayoutOk l₄ ∧
      WF body (125 :: (printLayout l₃ ++ 101 :: 108 :: 115 :: 101 :: (printLayout l₄ ++ 105 :: 102 :: (printChain next ++ follow)))) ∧
      WFChain next follow
def WFArm : Arm → Bytes → Prop
  | .mk l₁ pb pcs l₂ l₃ body, follow =>
    LayoutOk l₁ ∧ LayoutOk l₂ ∧ LayoutOk l₃ ∧ NameOk pb pcs ∧ WF body (125 :: follow)
def WFArms : List Arm → Bytes → Prop
  | [], _ => True
  | a :: r, follow => WFArm a (printArms r ++ follow) ∧ WFArms r follow
def WFArg : Arg → Bytes → Prop
  | .rust pre b cs, _ => LayoutOk pre ∧ NameOk b cs
  | .block pre body after, follow => LayoutOk pre ∧ LayoutOk after ∧ WF body (125 :: (printLayout after ++ follow))
/-- the arguments after the first one -/
def WFMore : List Arg → Bytes → Prop
  | [], _ => True
  | a :: r, follow => WFArg a (printMore r ++ follow) ∧ WFMore r follow
/-- the argument list: no layout directly after `(` -/
def WFArgs : List Arg → Bytes → Prop
  | [], _ => True
  | a :: r, follow => a.pre = [] ∧ WFArg a (printMore r ++ follow) ∧ WFMore r follow
end

/-! ## erasing the layout -/

mutual
def eraseNode : Node → Node
  | .ifNode c => .ifNode (eraseChain c)
  | .forIn _ pb pcs _ _ ib ics _ body => .forIn [] pb pcs [] [] ib ics [] (eraseNodes body)
  | .matchOn _ eb ecs _ arms _ => .matchOn [] eb ecs [] (eraseArms arms) []
  | .call nb ncs args => .call nb ncs (eraseArgs args)
  | x => x
def eraseNodes : List Node → List Node
  | [] => []
  | x :: r => eraseNode x :: eraseNodes r
def eraseChain : IfChain → IfChain
  | .last _ b cs _ body => .last [] b cs [] (eraseNodes body)
  | .els _ b cs _ body _ _ body2 => .els [] b cs [] (eraseNodes body) [] [] (eraseNodes body2)
  | .elif _ b cs _ body _ _ next => .elif [] b cs [] (eraseNodes body) [] [] (eraseChain next)
def eraseArm : Arm → Arm
  | .mk _ pb pcs _ _ body => .mk [] pb pcs [] [] (eraseNodes body)
def eraseArms : List Arm → List Arm
  | [] => []
  | a :: r => eraseArm a :: eraseArms r
def eraseArg : Arg → Arg
  | .rust _ b cs => .rust [] b cs
  | .block _ body _ => .block [] (eraseNodes body) []
def eraseArgs : List Arg → List Arg
  | [] => []
  | a :: r => eraseArg a :: eraseArgs r
end

/-- two source trees differ only in their layout slots -/
def sameShape (ns₁ ns₂ : List Node) : Prop := eraseNodes ns₁ = eraseNodes ns₂

/-! ## the intended tree and the fuel do not depend on the layout -/

mutual
theorem astNode_erase : (x : Node) → astNode (eraseNode x) = astNode x
  | .text _ | .escAt | .escOpen | .escClose | .comment _ | .name _ _ | .nameCall _ _ _ | .paren _ => by
    simp [eraseNode]
  | .ifNode c => by simp [eraseNode, astNode, astChain_erase c]
  | .forIn _ _ _ _ _ _ _ _ body => by simp [eraseNode, astNode, astNodes_erase body]
  | .matchOn _ _ _ _ arms _ => by simp [eraseNode, astNode, astArms_erase arms]
  | .call _ _ args => by simp [eraseNode, astNode, astArgs_erase args]
theorem astNodes_erase : (ns : List Node) → astNodes (eraseNodes ns) = astNodes ns
  | [] => by simp [eraseNodes]
  | x :: r => by simp [eraseNodes, astNodes, astNode_erase x, astNodes_erase r]
theorem astChain_erase : (c : IfChain) → astChain (eraseChain c) = astChain c
  | .last _ _ _ _ body => by simp [eraseChain, astChain, astNodes_erase body]
  | .els _ _ _ _ body _ _ body2 => by simp [eraseChain, astChain, astNodes_erase body, astNodes_erase body2]
  | .elif _ _ _ _ body _ _ next => by simp [eraseChain, astChain, astNodes_erase body, astChain_erase next]
theorem astArm_erase : (a : Arm) → astArm (eraseArm a) = astArm a
  | .mk _ _ _ _ _ body => by simp [eraseArm, astArm, astNodes_erase body]
theorem astArms_erase : (as : List Arm) → astArms (eraseArms as) = astArms as
  | [] => by simp [eraseArms]
  | a :: r => by simp [eraseArms, astArms, astArm_erase a, astArms_erase r]
theorem astArg_erase : (a : Arg) → astArg (eraseArg a) = astArg a
  | .rust _ _ _ => by simp [eraseArg, astArg]
  | .block _ body _ => by simp [eraseArg, astArg, astNodes_erase body]
theorem astArgs_erase : (as : List Arg) → astArgs (eraseArgs as) = astArgs as
  | [] => by simp [eraseArgs]
  | a :: r => by simp [eraseArgs, astArgs, astArg_erase a, astArgs_erase r]
end

mutual
theorem fuelNode_erase : (x : Node) → fuelNode (eraseNode x) = fuelNode x
  | .text _ | .escAt | .escOpen | .escClose | .comment _ | .name _ _ | .nameCall _ _ _ | .paren _ => by
    simp [eraseNode]
  | .ifNode c => by simp [eraseNode, fuelNode, fuelChain_erase c]
  | .forIn _ _ _ _ _ _ _ _ body => by simp [eraseNode, fuelNode, fuelNodes_erase body]
  | .matchOn _ _ _ _ arms _ => by simp [eraseNode, fuelNode, fuelArms_erase arms]
  | .call _ _ args => by simp [eraseNode, fuelNode, fuelArgs_erase args]
theorem fuelNodes_erase : (ns : List Node) → fuelNodes (eraseNodes ns) = fuelNodes ns
  | [] => by simp [eraseNodes]
  | x :: r => by simp [eraseNodes, fuelNodes, fuelNode_erase x, fuelNodes_erase r]
theorem fuelChain_erase : (c : IfChain) → fuelChain (eraseChain c) = fuelChain c
  | .last _ _ _ _ body => by simp [eraseChain, fuelChain, fuelNodes_erase body]
  | .els _ _ _ _ body _ _ body2 => by simp [eraseChain, fuelChain, fuelNodes_erase body, fuelNodes_erase body2]
  | .elif _ _ _ _ body _ _ next => by simp [eraseChain, fuelChain, fuelNodes_erase body, fuelChain_erase next]
theorem fuelArm_erase : (a : Arm) → fuelArm (eraseArm a) = fuelArm a
  | .mk _ _ _ _ _ body => by simp [eraseArm, fuelArm, fuelNodes_erase body]
theorem fuelArms_erase : (as : List Arm) → fuelArms (eraseArms as) = fuelArms as
  | [] => by simp [eraseArms]
  | a :: r => by simp [eraseArms, fuelArms, fuelArm_erase a, fuelArms_erase r]
theorem fuelArg_erase : (a : Arg) → fuelArg (eraseArg a) = fuelArg a
  | .rust _ _ _ => by simp [eraseArg, fuelArg]
  | .block _ body _ => by simp [eraseArg, fuelArg, fuelNodes_erase body]
theorem fuelArgs_erase : (as : List Arg) → fuelArgs (eraseArgs as) = fuelArgs as
  | [] => by simp [eraseArgs]
  | a :: r => by simp [eraseArgs, fuelArgs, fuelArg_erase a, fuelArgs_erase r]
end

theorem sameShape_ast {ns₁ ns₂ : List Node} (h : sameShape ns₁ ns₂) : astNodes ns₁ = astNodes ns₂ := by
  rw [← astNodes_erase ns₁, ← astNodes_erase ns₂, h]

theorem sameShape_fuel {ns₁ ns₂ : List Node} (h : sameShape ns₁ ns₂) : fuelNodes ns₁ = fuelNodes ns₂ := by
  rw [← fuelNodes_erase ns₁, ← fuelNodes_erase ns₂, h]

/-! ## a decidable sufficient test for `C05.Stops` -/

/-- what stops an expression chain, decided on the first two bytes: the end of input; a `.` that is
not followed by an expression start; a single `:`; any byte other than `.`, `:`, `(`, `{`, `[`, `!` -/
def stopsB : Bytes → Bool
  | [] => true
  | [46] => true
  | 46 :: c :: _ => noExprStart c
  | [58] => true
  | 58 :: c :: _ => c != 58
  | c :: _ => c != 40 && c != 123 && c != 91 && c != 33

theorem chainStep_colon (m : Nat) (inp : Bytes) (h : inp = [58] ∨ ∃ c x, inp = 58 :: c :: x ∧ c ≠ 58) :
    chainStep (m + 1) inp = .err [] := by
  have h1 : tag [46] inp = .err [] := tag_ne _ _ _ (fun x e => by rcases h with rfl | ⟨c, y, rfl, _⟩ <;> cases e)
  have h2 : tag [58, 58] inp = .err [] := by
    rcases h with rfl | ⟨c, y, rfl, hc⟩
    · rfl
    · simp [tag, isPrefix, Ne.symm hc]
  have h3 := exprInParens_head m inp (fun x e => by rcases h with rfl | ⟨c, y, rfl, _⟩ <;> cases e)
  have h4 := exprInBraces_head m inp (fun x e => by rcases h with rfl | ⟨c, y, rfl, _⟩ <;> cases e)
  have h5 := exprInBrackets_head m inp (fun x e => by rcases h with rfl | ⟨c, y, rfl, _⟩ <;> cases e)
  have h6 : tag [33] inp = .err [] := tag_ne _ _ _ (fun x e => by rcases h with rfl | ⟨c, y, rfl, _⟩ <;> cases e)
  simp only [chainStep, alt, orElse, value_err () (preceded_err_left (context_err _ h1)),
    value_err () (preceded_err_left h2), value_err () h3, value_err () h4, value_err () h5,
    value_err () (preceded_err_left h6)]

theorem stopsB_sound (f : Bytes) (h : stopsB f = true) : C05.Stops f := by
  rw [C05.stops_iff]
  intro n hn
  obtain ⟨m, rfl⟩ : ∃ m, n = m + 2 := ⟨n - 2, by omega⟩
  unfold stopsB at h
  split at h
  · exact ⟨_, chainStep_stop (m + 1) [] (fun _ _ e => by simp at e)⟩
  · exact ⟨_, chainStep_dot (m + 1) _ (expression_head m [] (fun _ _ e => by simp at e))⟩
  · next c x =>
    refine ⟨_, chainStep_dot (m + 1) _ (expression_head m (c :: x) ?_)⟩
    intro b' y e
    obtain ⟨rfl, _⟩ := List.cons.inj e
    exact h
  · exact ⟨_, chainStep_colon (m + 1) _ (.inl rfl)⟩
  · next c x =>
    exact ⟨_, chainStep_colon (m + 1) _ (.inr ⟨c, x, rfl, by simpa using h⟩)⟩
  · next c x h46 h46' h58 h58' =>
    refine ⟨_, chainStep_stop (m + 1) _ ?_⟩
    intro b' y e
    obtain ⟨rfl, _⟩ := List.cons.inj e
    simp only [Bool.and_eq_true, bne_iff_ne, ne_eq] at h
    refine ⟨?_, ?_, h.1.1.1, h.1.1.2, h.1.2, h.2⟩
    · intro hc
      cases x with
      | nil => exact h46 hc rfl
      | cons d t => exact h46' d t hc rfl
    · intro hc
      cases x with
      | nil => exact h58 hc rfl
      | cons d t => exact h58' d t hc rfl

end Ructe.Src
