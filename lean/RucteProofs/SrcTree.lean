import RucteModel.Tpl
import RucteProps.C15
import RucteProps.C05Complete
import RucteProps.C01Nodes
import RucteProofs.SrcFrag
import RucteProofs.SrcCond

/-!
# Source trees of the documented template syntax, with explicit layout slots

`Node` is the documented body syntax of a ructe template: text, the three escapes, comments,
`@expression` (any documented expression `C05.DExpr`), `@(group)`, `@if` chains (with `else` and
`else if`), `@for`, `@match` and `@:name(args)`.  Every place where the grammar calls `spacelike`
carries an explicit layout slot (`List C15.Item`: white-space runs and `@* … *@` comments).

The Rust fragments inside the directives are documented expressions too (`RucteProofs/SrcFrag.lean`):
the `@if` condition is a `Cond` (`let` binding or logic expression), the `@for` loop variable a
`ForPat`, its iterable a `LoopExpr`; the `@match` scrutinee, the arm patterns and the Rust arguments of
a call are `C05.DExpr`.

* `printNodes`   : the source text of a tree;
* `astNodes`     : the tree (`TExpr`) the parser is documented to produce (layout-free);
* `fuelNodes`    : the fuel the model parser needs;
* `WF ns follow` : the explicit side conditions under which the print of `ns`, followed by the bytes
  `follow`, is parsed back to `astNodes ns` (every condition is decidable on concrete data, except
  `C05.Stops`, for which `Ructe.stopsB` is a decidable sufficient test);
* `eraseNodes`   : the same tree with every layout slot emptied that is not part of the tree
  (`sameShape`); the slots *inside* a logic condition of `@if` are part of the stored text and are kept.
-/
namespace Ructe.Src
open Nom Ructe.C15

mutual
inductive Node where
  | text (t : Bytes)
  | escAt                                   -- `@@`
  | escOpen                                 -- `@{`
  | escClose                                -- `@}`
  | comment (body : Bytes)                  -- `@*` body `*@`
  | expr (e : C05.DExpr)                    -- `@` expression
  | paren (g : List C05.Grp)                -- `@(group)`
  | ifNode (c : IfChain)                    -- `@if ` chain
  | forIn (l₁ : Layout) (pat : ForPat) (l₂ l₃ : Layout) (iter : LoopExpr) (l₄ : Layout)
      (body : List Node)                    -- `@for ` L1 pat L2 `in` L3 iter L4 `{` body `}`
  | matchOn (l₀ : Layout) (e : C05.DExpr) (l₁ : Layout) (arms : List Arm) (lEnd : Layout)
                                            -- `@match ` L0 e L1 `{` arms LEnd `}`
  | call (nb : UInt8) (ncs : Bytes) (args : List Arg)      -- `@:name(` args `)`
/-- what follows `@if `: L1 cond L2 `{` body `}`, then nothing, or L3 `else` L4 `{` body2 `}`, or
L3 `else` L4 `if` followed by another chain -/
inductive IfChain where
  | last (l₁ : Layout) (c : Cond) (l₂ : Layout) (body : List Node)
  | els (l₁ : Layout) (c : Cond) (l₂ : Layout) (body : List Node) (l₃ l₄ : Layout) (body2 : List Node)
  | elif (l₁ : Layout) (c : Cond) (l₂ : Layout) (body : List Node) (l₃ l₄ : Layout) (next : IfChain)
/-- one match arm: L1 pat L2 `=>` L3 `{` body `}` -/
inductive Arm where
  | mk (l₁ : Layout) (pat : C05.DExpr) (l₂ l₃ : Layout) (body : List Node)
/-- one call argument, with the layout `pre` that follows the comma in front of it (the first
argument of a call must have none): a Rust expression, or `{` body `}` followed by layout -/
inductive Arg where
  | rust (pre : Layout) (e : C05.DExpr)
  | block (pre : Layout) (body : List Node) (after : Layout)
end

def Arg.pre : Arg → Layout
  | .rust pre _ => pre
  | .block pre _ _ => pre

/-- `@name` -/
@[reducible] def Node.name (b : UInt8) (cs : Bytes) : Node := .expr (.last .none (.name b cs) [])
/-- `@name(group)` -/
@[reducible] def Node.nameCall (b : UInt8) (cs : Bytes) (g : List C05.Grp) : Node :=
  .expr (.last .none (.name b cs) [.call g])

/-! ## the printer -/

mutual
def printNode : Node → Bytes
  | .text t => t
  | .escAt => [64, 64]
  | .escOpen => [64, 123]
  | .escClose => [64, 125]
  | .comment body => [64, 42] ++ body ++ [42, 64]
  | .expr e => 64 :: e.print
  | .paren g => [64, 40] ++ C05.Grp.printL g ++ [41]
  | .ifNode c => [64, 105, 102, 32] ++ printChain c
  | .forIn l₁ pat l₂ l₃ iter l₄ body =>
    [64, 102, 111, 114, 32] ++ printLayout l₁ ++ pat.print ++ printLayout l₂ ++ [105, 110] ++ printLayout l₃ ++
      iter.print ++ printLayout l₄ ++ [123] ++ printNodes body ++ [125]
  | .matchOn l₀ e l₁ arms lEnd =>
    [64, 109, 97, 116, 99, 104, 32] ++ printLayout l₀ ++ e.print ++ printLayout l₁ ++ [123] ++ printArms arms ++
      printLayout lEnd ++ [125]
  | .call nb ncs args => [64, 58] ++ (nb :: ncs) ++ [40] ++ printArgs args ++ [41]
def printNodes : List Node → Bytes
  | [] => []
  | x :: r => printNode x ++ printNodes r
def printChain : IfChain → Bytes
  | .last l₁ c l₂ body => printLayout l₁ ++ c.print ++ printLayout l₂ ++ [123] ++ printNodes body ++ [125]
  | .els l₁ c l₂ body l₃ l₄ body2 =>
    printLayout l₁ ++ c.print ++ printLayout l₂ ++ [123] ++ printNodes body ++ [125] ++
      printLayout l₃ ++ [101, 108, 115, 101] ++ printLayout l₄ ++ [123] ++ printNodes body2 ++ [125]
  | .elif l₁ c l₂ body l₃ l₄ next =>
    printLayout l₁ ++ c.print ++ printLayout l₂ ++ [123] ++ printNodes body ++ [125] ++
      printLayout l₃ ++ [101, 108, 115, 101] ++ printLayout l₄ ++ [105, 102] ++ printChain next
def printArm : Arm → Bytes
  | .mk l₁ pat l₂ l₃ body =>
    printLayout l₁ ++ pat.print ++ printLayout l₂ ++ [61, 62] ++ printLayout l₃ ++ [123] ++ printNodes body ++ [125]
def printArms : List Arm → Bytes
  | [] => []
  | a :: r => printArm a ++ printArms r
/-- an argument with the layout in front of it -/
def printArg : Arg → Bytes
  | .rust pre e => printLayout pre ++ e.print
  | .block pre body after => printLayout pre ++ [123] ++ printNodes body ++ [125] ++ printLayout after
/-- the arguments after the first one, each with its comma -/
def printMore : List Arg → Bytes
  | [] => []
  | a :: r => [44] ++ printArg a ++ printMore r
def printArgs : List Arg → Bytes
  | [] => []
  | a :: r => printArg a ++ printMore r
end

/-! ## the intended tree -/

mutual
def astNode : Node → TExpr
  | .text t => .text t
  | .escAt => .text [64]
  | .escOpen => .text [123]
  | .escClose => .text [125]
  | .comment _ => .comment
  | .expr e => .expr e.print
  | .paren g => .expr ([40] ++ C05.Grp.printL g ++ [41])
  | .ifNode c => astChain c
  | .forIn _ pat _ _ iter _ body => .forLoop pat.value iter.value (astNodes body)
  | .matchOn _ e _ arms _ => .matchBlock e.print (astArms arms)
  | .call nb ncs args => .call (nb :: ncs) (astArgs args)
def astNodes : List Node → List TExpr
  | [] => []
  | x :: r => astNode x :: astNodes r
def astChain : IfChain → TExpr
  | .last _ c _ body => .ifBlock c.value (astNodes body) none
  | .els _ c _ body _ _ body2 => .ifBlock c.value (astNodes body) (some (astNodes body2))
  | .elif _ c _ body _ _ next => .ifBlock c.value (astNodes body) (some [astChain next])
def astArm : Arm → Bytes × List TExpr
  | .mk _ pat _ _ body => (pat.print, astNodes body)
def astArms : List Arm → List (Bytes × List TExpr)
  | [] => []
  | a :: r => astArm a :: astArms r
def astArg : Arg → TArg
  | .rust _ e => .rust e.print
  | .block _ body _ => .body (astNodes body)
def astArgs : List Arg → List TArg
  | [] => []
  | a :: r => astArg a :: astArgs r
end

/-! ## fuel

`fuelNodes ns` is the fuel at which the loop's `templateExpression` must run. -/

mutual
def fuelNode : Node → Nat
  | .text _ | .escAt | .escOpen | .escClose | .comment _ => 1
  | .expr e => e.fuel + 1
  | .paren g => 2 * C05.Grp.depthL g + 3
  | .ifNode c => fuelChain c + 1
  | .forIn _ pat _ _ iter _ body => max (fuelNodes body + 1) (max pat.fuel iter.fuel) + 1
  | .matchOn _ e _ arms _ => max (fuelArms arms) e.fuel + 1
  | .call _ _ args => max (fuelArgs args + 2) 4
def fuelNodes : List Node → Nat
  | [] => 0
  | x :: r => max (fuelNode x) (fuelNodes r)
/-- fuel of `if2` -/
def fuelChain : IfChain → Nat
  | .last _ c _ body => max (fuelNodes body + 1) c.fuel + 1
  | .els _ c _ body _ _ body2 => max (max (fuelNodes body) (fuelNodes body2) + 1) c.fuel + 1
  | .elif _ c _ body _ _ next => max (max (fuelNodes body + 1) c.fuel) (fuelChain next) + 1
/-- fuel of the arm parser (`expression n`, `templateBlock n`) -/
def fuelArm : Arm → Nat
  | .mk _ pat _ _ body => max (fuelNodes body + 1) pat.fuel
def fuelArms : List Arm → Nat
  | [] => 0
  | a :: r => max (fuelArm a) (fuelArms r)
/-- `n` such that `templateArgument (n + 1)` takes the argument -/
def fuelArg : Arg → Nat
  | .rust _ e => e.fuel
  | .block _ body _ => max (fuelNodes body) 1
def fuelArgs : List Arg → Nat
  | [] => 0
  | a :: r => max (fuelArg a) (fuelArgs r)
end

/-! ## well-formedness -/

/-- a plain Rust name -/
def NameOk (b : UInt8) (cs : Bytes) : Prop := C05.isNameStart b = true ∧ cs.all C05.isNameChar = true

instance (b : UInt8) (cs : Bytes) : Decidable (NameOk b cs) := by unfold NameOk; infer_instance

/-- what may follow a text node: the end of input, or one of `@`, `{`, `}` -/
def textEndB : Bytes → Bool
  | [] => true
  | b :: _ => b == 64 || b == 123 || b == 125

/-- the input after `@` is not one of the keywords `if `, `for `, `match ` -/
def noKeywordB : Bytes → Bool
  | 105 :: 102 :: 32 :: _ => false
  | 102 :: 111 :: 114 :: 32 :: _ => false
  | 109 :: 97 :: 116 :: 99 :: 104 :: 32 :: _ => false
  | _ => true

/-- the text after `@` is handed to `expression` (the last arm of the dispatcher): it starts with none
of `*` (comment), `:` (call), `@`, `{`, `}` (escapes), `(` (parenthesised expression), and with none of
the keywords `if `, `for `, `match ` -/
def dispatchB (inp : Bytes) : Bool :=
  match inp with
  | 42 :: _ | 58 :: _ | 64 :: _ | 123 :: _ | 125 :: _ | 40 :: _ => false
  | _ => noKeywordB inp

/-- what follows an `@if` without `else` is not taken as an `else` branch: after layout it does not
continue with `else`, or that `else` is followed (after layout) neither by `{` nor by `if` -/
def noElseB (follow : Bytes) : Bool :=
  match spacelike follow with
  | .ok r _ =>
    match isPrefix [101, 108, 115, 101] r with
    | none => true
    | some r' =>
      match spacelike r' with
      | .ok (123 :: _) _ => false
      | .ok (105 :: 102 :: _) _ => false
      | _ => true
  | _ => true

/-- documented group content: well-formed and valid UTF-8 -/
def GroupOk (g : List C05.Grp) : Prop := C05.Grp.wfL g = true ∧ validUtf8 (C05.Grp.printL g) = true

instance (g : List C05.Grp) : Decidable (GroupOk g) := by unfold GroupOk; infer_instance

mutual
/-- `WFNode x follow`: the side conditions for the node `x` when its print is followed by `follow` -/
def WFNode : Node → Bytes → Prop
  | .text t, follow => t ≠ [] ∧ C01.plainText t = true ∧ validUtf8 t = true ∧ textEndB follow = true
  | .escAt, _ => True
  | .escOpen, _ => True
  | .escClose, _ => True
  | .comment body, _ => noStarAt (body ++ [42]) = true
  | .expr e, follow =>
    e.wf = true ∧ dispatchB (e.print ++ follow) = true ∧ e.follows follow = true ∧ C05.Stops follow
  | .paren g, _ => GroupOk g
  | .ifNode c, follow => WFChain c follow
  | .forIn l₁ pat l₂ l₃ iter l₄ body, follow =>
    LayoutOk l₁ ∧ LayoutOk l₂ ∧ LayoutOk l₃ ∧ LayoutOk l₄ ∧ (pat.bare = true → l₂ ≠ []) ∧ l₄ ≠ [] ∧ pat.wf = true ∧
      iter.wf = true ∧ WF body (125 :: follow)
  | .matchOn l₀ e l₁ arms lEnd, follow =>
    LayoutOk l₀ ∧ LayoutOk l₁ ∧ LayoutOk lEnd ∧ l₁ ≠ [] ∧ e.wf = true ∧ WFArms arms (printLayout lEnd ++ 125 :: follow)
  | .call nb ncs args, follow => NameOk nb ncs ∧ WFArgs args (41 :: follow)
/-- `WF ns follow`: every node is well-formed with respect to what follows it -/
def WF : List Node → Bytes → Prop
  | [], _ => True
  | x :: r, follow => WFNode x (printNodes r ++ follow) ∧ WF r follow
def WFChain : IfChain → Bytes → Prop
  | .last l₁ c l₂ body, follow =>
    LayoutOk l₁ ∧ LayoutOk l₂ ∧ l₂ ≠ [] ∧ c.wf = true ∧ WF body (125 :: follow) ∧ noElseB follow = true
  | .els l₁ c l₂ body l₃ l₄ body2, follow =>
    LayoutOk l₁ ∧ LayoutOk l₂ ∧ l₂ ≠ [] ∧ c.wf = true ∧ LayoutOk l₃ ∧ LayoutOk l₄ ∧
      WF body (125 :: (printLayout l₃ ++ 101 :: 108 :: 115 :: 101 :: (printLayout l₄ ++ 123 :: (printNodes body2 ++ 125 :: follow)))) ∧
      WF body2 (125 :: follow)
  | .elif l₁ c l₂ body l₃ l₄ next, follow =>
    LayoutOk l₁ ∧ LayoutOk l₂ ∧ l₂ ≠ [] ∧ c.wf = true ∧ LayoutOk l₃ ∧ LayoutOk l₄ ∧
      WF body (125 :: (printLayout l₃ ++ 101 :: 108 :: 115 :: 101 :: (printLayout l₄ ++ 105 :: 102 :: (printChain next ++ follow)))) ∧
      WFChain next follow
def WFArm : Arm → Bytes → Prop
  | .mk l₁ pat l₂ l₃ body, follow =>
    LayoutOk l₁ ∧ LayoutOk l₂ ∧ LayoutOk l₃ ∧ pat.wf = true ∧ WF body (125 :: follow)
def WFArms : List Arm → Bytes → Prop
  | [], _ => True
  | a :: r, follow => WFArm a (printArms r ++ follow) ∧ WFArms r follow
def WFArg : Arg → Bytes → Prop
  | .rust pre e, _ => LayoutOk pre ∧ e.wf = true
  | .block pre body after, follow => LayoutOk pre ∧ LayoutOk after ∧ WF body (125 :: (printLayout after ++ follow))
/-- the arguments after the first one -/
def WFMore : List Arg → Bytes → Prop
  | [], _ => True
  | a :: r, follow => WFArg a (printMore r ++ follow) ∧ WFMore r follow
/-- the argument list: no layout directly after `(` -/
def WFArgs : List Arg → Bytes → Prop
  | [], _ => True
  | a :: r, follow => a.pre = [] ∧ WFArg a (printMore r ++ follow) ∧ WFMore r follow
end

/-! ## erasing the layout -/

mutual
def eraseNode : Node → Node
  | .ifNode c => .ifNode (eraseChain c)
  | .forIn _ pat _ _ iter _ body => .forIn [] pat.erase [] [] iter [] (eraseNodes body)
  | .matchOn _ e _ arms _ => .matchOn [] e [] (eraseArms arms) []
  | .call nb ncs args => .call nb ncs (eraseArgs args)
  | x => x
def eraseNodes : List Node → List Node
  | [] => []
  | x :: r => eraseNode x :: eraseNodes r
def eraseChain : IfChain → IfChain
  | .last _ c _ body => .last [] c.erase [] (eraseNodes body)
  | .els _ c _ body _ _ body2 => .els [] c.erase [] (eraseNodes body) [] [] (eraseNodes body2)
  | .elif _ c _ body _ _ next => .elif [] c.erase [] (eraseNodes body) [] [] (eraseChain next)
def eraseArm : Arm → Arm
  | .mk _ pat _ _ body => .mk [] pat [] [] (eraseNodes body)
def eraseArms : List Arm → List Arm
  | [] => []
  | a :: r => eraseArm a :: eraseArms r
def eraseArg : Arg → Arg
  | .rust _ e => .rust [] e
  | .block _ body _ => .block [] (eraseNodes body) []
def eraseArgs : List Arg → List Arg
  | [] => []
  | a :: r => eraseArg a :: eraseArgs r
end

/-- two source trees differ only in the layout slots that are not part of the tree (all of them except
those inside a logic condition of `@if`) and in the spaces after the commas of a tuple loop variable -/
def sameShape (ns₁ ns₂ : List Node) : Prop := eraseNodes ns₁ = eraseNodes ns₂

/-! ## the intended tree and the fuel do not depend on the layout -/

mutual
theorem astNode_erase : (x : Node) → astNode (eraseNode x) = astNode x
  | .text _ | .escAt | .escOpen | .escClose | .comment _ | .expr _ | .paren _ => by
    simp [eraseNode]
  | .ifNode c => by simp [eraseNode, astNode, astChain_erase c]
  | .forIn _ pat _ _ _ _ body => by simp [eraseNode, astNode, astNodes_erase body, ForPat.value_erase]
  | .matchOn _ _ _ arms _ => by simp [eraseNode, astNode, astArms_erase arms]
  | .call _ _ args => by simp [eraseNode, astNode, astArgs_erase args]
theorem astNodes_erase : (ns : List Node) → astNodes (eraseNodes ns) = astNodes ns
  | [] => by simp [eraseNodes]
  | x :: r => by simp [eraseNodes, astNodes, astNode_erase x, astNodes_erase r]
theorem astChain_erase : (c : IfChain) → astChain (eraseChain c) = astChain c
  | .last _ _ _ body => by simp [eraseChain, astChain, astNodes_erase body, Cond.value_erase]
  | .els _ _ _ body _ _ body2 => by
    simp [eraseChain, astChain, astNodes_erase body, astNodes_erase body2, Cond.value_erase]
  | .elif _ _ _ body _ _ next => by
    simp [eraseChain, astChain, astNodes_erase body, astChain_erase next, Cond.value_erase]
theorem astArm_erase : (a : Arm) → astArm (eraseArm a) = astArm a
  | .mk _ _ _ _ body => by simp [eraseArm, astArm, astNodes_erase body]
theorem astArms_erase : (as : List Arm) → astArms (eraseArms as) = astArms as
  | [] => by simp [eraseArms]
  | a :: r => by simp [eraseArms, astArms, astArm_erase a, astArms_erase r]
theorem astArg_erase : (a : Arg) → astArg (eraseArg a) = astArg a
  | .rust _ _ => by simp [eraseArg, astArg]
  | .block _ body _ => by simp [eraseArg, astArg, astNodes_erase body]
theorem astArgs_erase : (as : List Arg) → astArgs (eraseArgs as) = astArgs as
  | [] => by simp [eraseArgs]
  | a :: r => by simp [eraseArgs, astArgs, astArg_erase a, astArgs_erase r]
end

mutual
theorem fuelNode_erase : (x : Node) → fuelNode (eraseNode x) = fuelNode x
  | .text _ | .escAt | .escOpen | .escClose | .comment _ | .expr _ | .paren _ => by
    simp [eraseNode]
  | .ifNode c => by simp [eraseNode, fuelNode, fuelChain_erase c]
  | .forIn _ pat _ _ _ _ body => by simp [eraseNode, fuelNode, fuelNodes_erase body, ForPat.fuel_erase]
  | .matchOn _ _ _ arms _ => by simp [eraseNode, fuelNode, fuelArms_erase arms]
  | .call _ _ args => by simp [eraseNode, fuelNode, fuelArgs_erase args]
theorem fuelNodes_erase : (ns : List Node) → fuelNodes (eraseNodes ns) = fuelNodes ns
  | [] => by simp [eraseNodes]
  | x :: r => by simp [eraseNodes, fuelNodes, fuelNode_erase x, fuelNodes_erase r]
theorem fuelChain_erase : (c : IfChain) → fuelChain (eraseChain c) = fuelChain c
  | .last _ _ _ body => by simp [eraseChain, fuelChain, fuelNodes_erase body, Cond.fuel_erase]
  | .els _ _ _ body _ _ body2 => by
    simp [eraseChain, fuelChain, fuelNodes_erase body, fuelNodes_erase body2, Cond.fuel_erase]
  | .elif _ _ _ body _ _ next => by
    simp [eraseChain, fuelChain, fuelNodes_erase body, fuelChain_erase next, Cond.fuel_erase]
theorem fuelArm_erase : (a : Arm) → fuelArm (eraseArm a) = fuelArm a
  | .mk _ _ _ _ body => by simp [eraseArm, fuelArm, fuelNodes_erase body]
theorem fuelArms_erase : (as : List Arm) → fuelArms (eraseArms as) = fuelArms as
  | [] => by simp [eraseArms]
  | a :: r => by simp [eraseArms, fuelArms, fuelArm_erase a, fuelArms_erase r]
theorem fuelArg_erase : (a : Arg) → fuelArg (eraseArg a) = fuelArg a
  | .rust _ _ => by simp [eraseArg, fuelArg]
  | .block _ body _ => by simp [eraseArg, fuelArg, fuelNodes_erase body]
theorem fuelArgs_erase : (as : List Arg) → fuelArgs (eraseArgs as) = fuelArgs as
  | [] => by simp [eraseArgs]
  | a :: r => by simp [eraseArgs, fuelArgs, fuelArg_erase a, fuelArgs_erase r]
end

theorem sameShape_ast {ns₁ ns₂ : List Node} (h : sameShape ns₁ ns₂) : astNodes ns₁ = astNodes ns₂ := by
  rw [← astNodes_erase ns₁, ← astNodes_erase ns₂, h]

theorem sameShape_fuel {ns₁ ns₂ : List Node} (h : sameShape ns₁ ns₂) : fuelNodes ns₁ = fuelNodes ns₂ := by
  rw [← fuelNodes_erase ns₁, ← fuelNodes_erase ns₂, h]

/-! ## a decidable sufficient test for `C05.Stops`

`Ructe.stopsB` (`RucteProofs/ChainLemmas.lean`) with `C05.stops_classes`. -/

theorem stopsB_sound (f : Bytes) (h : Ructe.stopsB f = true) : C05.Stops f := C05.stops_classes f h

end Ructe.Src
