import RucteModel.Expr
open Nom

/-!
# Soundness lemmas for the nom combinator model

Three compositional predicates on parsers, bundled as `Good`:
* `Sfx p`     : on success the rest is a suffix of the input;
* `NoPanic p` : `p` never returns `.panic`;
* `ErrIn p`   : every visible error entry lies inside the input.
One lemma `good_*` per combinator; the tactic `good` applies them syntactically.
Further: `Consumes` (success eats at least one byte), `EndsEmpty` (success leaves nothing),
`recognize_spec`, `delimited_ok`.
-/
namespace Nom

variable {α β γ : Type}

/-- A parser is *suffix-respecting*: on success the rest is a suffix of the input. -/
def Sfx (p : Parser α) : Prop := ∀ inp r v, p inp = .ok r v → r <:+ inp

def NoPanic (p : Parser α) : Prop := ∀ inp, p inp ≠ .panic

def ErrIn (p : Parser α) : Prop := ∀ inp es, p inp = .err es → ∀ e ∈ es, e.rem ≤ inp.length

structure Good (p : Parser α) : Prop where
  sfx : Sfx p
  np : NoPanic p
  ei : ErrIn p

theorem Sfx.len {p : Parser α} (hp : Sfx p) {inp r v} (h : p inp = .ok r v) : r.length ≤ inp.length :=
  (hp _ _ _ h).length_le

theorem errIn_nil {n : Nat} : ∀ e ∈ ([] : Errs), e.rem ≤ n := by
  intro e he; cases he

/-! ### primitives -/

theorem isPrefix_some {t inp r : Bytes} (h : isPrefix t inp = some r) : inp = t ++ r := by
  induction t generalizing inp with
  | nil => simp [isPrefix] at h; simp [h]
  | cons a as ih =>
    cases inp with
    | nil => simp [isPrefix] at h
    | cons b bs =>
      simp only [isPrefix] at h
      split at h
      · next hab => subst hab; simp [ih h]
      · simp at h

theorem tag_ok {t inp r v : Bytes} (h : tag t inp = .ok r v) : inp = t ++ r ∧ v = t := by
  unfold tag at h
  split at h
  · next r' hp => injection h with h1 h2; subst h1; exact ⟨isPrefix_some hp, h2.symm⟩
  · simp at h

theorem good_oom : Good (fun _ => Res.oom : Parser α) where
  sfx := by intro inp r v h; simp at h
  np := by intro inp h; simp at h
  ei := by intro inp es h; simp at h

theorem good_tag (t : Bytes) : Good (tag t) where
  sfx := by intro inp r v h; exact ⟨t, (tag_ok h).1.symm⟩
  np := by intro inp h; unfold tag at h; split at h <;> simp at h
  ei := by
    intro inp es h; unfold tag at h
    split at h <;> simp at h
    subst h; exact errIn_nil

theorem char_ok {c : UInt8} {inp r v} (h : char c inp = .ok r v) : inp = c :: r ∧ v = c := by
  unfold char at h
  split at h
  · split at h
    · next hb => injection h with h1 h2; subst h1 hb; exact ⟨rfl, h2.symm⟩
    · simp at h
  · simp at h

theorem good_char (c : UInt8) : Good (char c) where
  sfx := by intro inp r v h; rw [(char_ok h).1]; exact List.suffix_cons _ _
  np := by
    intro inp h; unfold char at h
    split at h
    · split at h <;> simp at h
    · simp at h
  ei := by
    intro inp es h; unfold char at h
    split at h
    · split at h
      · simp at h
      · simp at h; subst h; simp
    · simp at h; subst h; simp

theorem span_append (p : UInt8 → Bool) (inp : Bytes) : inp = (span p inp).1 ++ (span p inp).2 := by
  induction inp with
  | nil => simp [span]
  | cons b r ih =>
    simp only [span]
    split
    · simp; exact ih
    · simp

theorem span_suffix (p : UInt8 → Bool) (inp : Bytes) : (span p inp).2 <:+ inp :=
  ⟨(span p inp).1, (span_append p inp).symm⟩

theorem take1_ok {p : UInt8 → Bool} {inp r v} (h : take1 p inp = .ok r v) :
    inp = v ++ r ∧ v ≠ [] := by
  unfold take1 at h
  have hs := span_append p inp
  split at h
  · simp at h
  · next a r' hne heq =>
    injection h with h1 h2; subst h1 h2
    rw [heq] at hs
    refine ⟨hs, ?_⟩
    intro ha; subst ha; exact hne rfl

theorem good_take1 (p : UInt8 → Bool) : Good (take1 p) where
  sfx := by intro inp r v h; exact ⟨v, (take1_ok h).1.symm⟩
  np := by intro inp h; unfold take1 at h; split at h <;> simp at h
  ei := by
    intro inp es h; unfold take1 at h
    split at h <;> simp at h
    subst h; exact errIn_nil

theorem isNot_eq (s : Bytes) : isNot s = take1 (fun b => !s.contains b) := rfl
theorem isA_eq (s : Bytes) : isA s = take1 (fun b => s.contains b) := rfl

theorem good_isNot (s : Bytes) : Good (isNot s) := isNot_eq s ▸ good_take1 _
theorem good_isA (s : Bytes) : Good (isA s) := isA_eq s ▸ good_take1 _
theorem good_multispace1 : Good multispace1 := good_take1 _
theorem good_alpha1 : Good alpha1 := good_take1 _
theorem good_digit1 : Good digit1 := good_take1 _

theorem good_multispace0 : Good multispace0 where
  sfx := by
    intro inp r v h; simp only [multispace0] at h
    injection h with h1 h2; subst h1; exact span_suffix _ _
  np := by intro inp h; simp [multispace0] at h
  ei := by intro inp es h; simp [multispace0] at h

/-- `one_of(set)` for an ASCII set: the matched byte is `< 0x80`, so `Satisfy` advances by one. -/
theorem good_oneOf {set : Bytes} (hs : ∀ b ∈ set, b < 0x80) : Good (oneOf set) where
  sfx := by
    intro inp r v h; unfold oneOf at h
    split at h
    · next b r' =>
      split at h
      · next hc =>
        have hb : b < 0x80 := hs b (by simpa using hc)
        simp [satisfyAdvance, hb] at h
        rw [← h.1]; exact List.suffix_cons _ _
      · simp at h
    · simp at h
  np := by
    intro inp h; unfold oneOf at h
    split at h
    · next b r' =>
      split at h
      · next hc =>
        have hb : b < 0x80 := hs b (by simpa using hc)
        simp [satisfyAdvance, hb] at h
      · simp at h
    · simp at h
  ei := by
    intro inp es h; unfold oneOf at h
    split at h
    · next b r' =>
      split at h
      · next hc =>
        have hb : b < 0x80 := hs b (by simpa using hc)
        simp [satisfyAdvance, hb] at h
      · simp at h; subst h; exact errIn_nil
    · simp at h; subst h; exact errIn_nil

/-! ### first-order combinators -/

theorem good_pmap {p : Parser α} {f : α → β} (hp : Good p) : Good (pmap p f) where
  sfx := by
    intro inp r v h; unfold pmap at h
    split at h <;> try simp at h
    next r' v' hp' => exact h.1 ▸ hp.sfx _ _ _ hp'
  np := by
    intro inp h; unfold pmap at h
    split at h <;> try simp at h
    next hp' => exact hp.np _ hp'
  ei := by
    intro inp es h; unfold pmap at h
    split at h <;> try simp at h
    next e hp' => subst h; exact hp.ei _ _ hp'

theorem good_value {p : Parser α} {v : β} (hp : Good p) : Good (value v p) := good_pmap hp

theorem good_mapRes {p : Parser α} {f : α → Option β} (hp : Good p) : Good (mapRes p f) where
  sfx := by
    intro inp r v h; unfold mapRes at h
    split at h <;> try simp at h
    next r' v' hp' =>
      split at h <;> try simp at h
      exact h.1 ▸ hp.sfx _ _ _ hp'
  np := by
    intro inp h; unfold mapRes at h
    split at h <;> try simp at h
    · split at h <;> simp at h
    · next hp' => exact hp.np _ hp'
  ei := by
    intro inp es h; unfold mapRes at h
    split at h <;> try simp at h
    · split at h <;> simp at h
      subst h; exact errIn_nil
    · next e hp' => subst h; exact hp.ei _ _ hp'

theorem good_recognize {p : Parser α} (hp : Good p) : Good (recognize p) where
  sfx := by
    intro inp r v h; unfold recognize at h
    split at h <;> try simp at h
    next r' v' hp' => exact h.1 ▸ hp.sfx _ _ _ hp'
  np := by
    intro inp h; unfold recognize at h
    split at h <;> try simp at h
    next hp' => exact hp.np _ hp'
  ei := by
    intro inp es h; unfold recognize at h
    split at h <;> try simp at h
    next e hp' => subst h; exact hp.ei _ _ hp'

theorem seq_ok {p : Parser α} {q : Parser β} {inp r v} (h : seq p q inp = .ok r v) :
    ∃ r1, p inp = .ok r1 v.1 ∧ q r1 = .ok r v.2 := by
  unfold seq at h
  split at h <;> try simp at h
  next r1 a h1 =>
    split at h <;> try simp at h
    next r2 b h2 =>
      obtain ⟨e1, e2⟩ := h
      subst e1 e2
      exact ⟨r1, h1, h2⟩

theorem good_seq {p : Parser α} {q : Parser β} (hp : Good p) (hq : Good q) : Good (seq p q) where
  sfx := by
    intro inp r v h
    obtain ⟨r1, h1, h2⟩ := seq_ok h
    exact (hq.sfx _ _ _ h2).trans (hp.sfx _ _ _ h1)
  np := by
    intro inp h; unfold seq at h
    split at h <;> try simp at h
    · next r1 a h1 =>
      split at h <;> try simp at h
      next h2 => exact hq.np _ h2
    · next h1 => exact hp.np _ h1
  ei := by
    intro inp es h; unfold seq at h
    split at h <;> try simp at h
    · next r1 a h1 =>
      split at h <;> try simp at h
      next e h2 =>
        subst h
        intro e' he'
        exact Nat.le_trans (hq.ei _ _ h2 e' he') (hp.sfx.len h1)
    · next e h1 => subst h; exact hp.ei _ _ h1

theorem good_preceded {p : Parser α} {q : Parser β} (hp : Good p) (hq : Good q) :
    Good (preceded p q) := good_pmap (good_seq hp hq)
theorem good_terminated {p : Parser α} {q : Parser β} (hp : Good p) (hq : Good q) :
    Good (terminated p q) := good_pmap (good_seq hp hq)
theorem good_delimited {p : Parser α} {q : Parser β} {s : Parser γ}
    (hp : Good p) (hq : Good q) (hs : Good s) : Good (delimited p q s) :=
  good_preceded hp (good_terminated hq hs)

theorem good_orElse {p q : Parser α} (hp : Good p) (hq : Good q) : Good (orElse p q) where
  sfx := by
    intro inp r v h; unfold orElse at h
    split at h
    · exact hq.sfx _ _ _ h
    · exact hp.sfx _ _ _ h
  np := by
    intro inp h; unfold orElse at h
    split at h
    · exact hq.np _ h
    · exact hp.np _ h
  ei := by
    intro inp es h; unfold orElse at h
    split at h
    · exact hq.ei _ _ h
    · exact hp.ei _ _ h

theorem good_alt_nil : Good (alt ([] : List (Parser α))) where
  sfx := by intro inp r v h; simp [alt] at h
  np := by intro inp h; simp [alt] at h
  ei := by intro inp es h; simp [alt] at h; subst h; exact errIn_nil

theorem good_alt_one {p : Parser α} (hp : Good p) : Good (alt [p]) := hp

theorem good_alt_cons {p q : Parser α} {ps : List (Parser α)} (hp : Good p) (hq : Good (alt (q :: ps))) :
    Good (alt (p :: q :: ps)) := good_orElse hp hq

theorem good_opt {p : Parser α} (hp : Good p) : Good (opt p) where
  sfx := by
    intro inp r v h; unfold opt at h
    split at h <;> try simp at h
    · next r' v' hp' => exact h.1 ▸ hp.sfx _ _ _ hp'
    · exact h.1 ▸ List.suffix_rfl
  np := by
    intro inp h; unfold opt at h
    split at h <;> try simp at h
    next hp' => exact hp.np _ hp'
  ei := by
    intro inp es h; unfold opt at h
    split at h <;> simp at h

theorem good_context {p : Parser α} {msg : String} (hp : Good p) : Good (context msg p) where
  sfx := by
    intro inp r v h; unfold context at h
    split at h
    · simp at h
    · exact hp.sfx _ _ _ h
  np := by
    intro inp h; unfold context at h
    split at h
    · simp at h
    · exact hp.np _ h
  ei := by
    intro inp es h; unfold context at h
    split at h
    · next e hp' =>
      simp at h; subst h
      intro e' he'
      simp only [List.mem_append, List.mem_singleton] at he'
      rcases he' with he' | he'
      · exact hp.ei _ _ hp' e' he'
      · subst he'; exact Nat.le_refl _
    · exact hp.ei _ _ h

theorem good_pnot {p : Parser α} (hp : Good p) : Good (pnot p) where
  sfx := by
    intro inp r v h; unfold pnot at h
    split at h <;> try simp at h
    exact h ▸ List.suffix_rfl
  np := by
    intro inp h; unfold pnot at h
    split at h <;> try simp at h
    next hp' => exact hp.np _ hp'
  ei := by
    intro inp es h; unfold pnot at h
    split at h <;> simp at h
    subst h; exact errIn_nil

/-! ### loops -/

theorem many0Go_sfx {p : Parser α} (hp : Good p) :
    ∀ n inp acc r v, many0Go p n inp acc = .ok r v → r <:+ inp := by
  intro n
  induction n with
  | zero => intro inp acc r v h; simp [many0Go] at h
  | succ n ih =>
    intro inp acc r v h
    simp only [many0Go] at h
    split at h
    · injection h with h1 h2; exact h1 ▸ List.suffix_rfl
    · simp at h
    · simp at h
    · next r1 v1 h1 =>
      split at h
      · simp at h
      · exact (ih _ _ _ _ h).trans (hp.sfx _ _ _ h1)

theorem many0Go_np {p : Parser α} (hp : Good p) :
    ∀ n inp acc, many0Go p n inp acc ≠ .panic := by
  intro n
  induction n with
  | zero => intro inp acc h; simp [many0Go] at h
  | succ n ih =>
    intro inp acc h
    simp only [many0Go] at h
    split at h
    · simp at h
    · simp at h
    · next h1 => exact hp.np _ h1
    · split at h
      · simp at h
      · exact ih _ _ h

theorem many0Go_err {p : Parser α} :
    ∀ n inp acc es, many0Go p n inp acc = .err es → es = [] := by
  intro n
  induction n with
  | zero => intro inp acc es h; simp [many0Go] at h
  | succ n ih =>
    intro inp acc es h
    simp only [many0Go] at h
    split at h
    · simp at h
    · simp at h
    · simp at h
    · split at h
      · simp at h; exact h
      · exact ih _ _ _ h

theorem good_many0 {p : Parser α} (hp : Good p) : Good (many0 p) where
  sfx := by intro inp r v h; exact many0Go_sfx hp _ _ _ _ _ h
  np := by intro inp; exact many0Go_np hp _ _ _
  ei := by intro inp es h; rw [many0Go_err _ _ _ _ h]; exact errIn_nil

theorem manyTillGo_sfx {f : Parser α} {g : Parser β} (hf : Good f) (hg : Good g) :
    ∀ n inp acc r v, manyTillGo f g n inp acc = .ok r v → r <:+ inp := by
  intro n
  induction n with
  | zero => intro inp acc r v h; simp [manyTillGo] at h
  | succ n ih =>
    intro inp acc r v h
    simp only [manyTillGo] at h
    split at h
    · next r0 o h0 => injection h with h1 h2; exact h1 ▸ hg.sfx _ _ _ h0
    · simp at h
    · simp at h
    · split at h
      · simp at h
      · simp at h
      · simp at h
      · next r1 v1 h1 =>
        split at h
        · simp at h
        · exact (ih _ _ _ _ h).trans (hf.sfx _ _ _ h1)

theorem manyTillGo_np {f : Parser α} {g : Parser β} (hf : Good f) (hg : Good g) :
    ∀ n inp acc, manyTillGo f g n inp acc ≠ .panic := by
  intro n
  induction n with
  | zero => intro inp acc h; simp [manyTillGo] at h
  | succ n ih =>
    intro inp acc h
    simp only [manyTillGo] at h
    split at h
    · simp at h
    · simp at h
    · next h0 => exact hg.np _ h0
    · split at h
      · simp at h
      · simp at h
      · next h1 => exact hf.np _ h1
      · split at h
        · simp at h
        · exact ih _ _ h

theorem manyTillGo_ei {f : Parser α} {g : Parser β} (hf : Good f) :
    ∀ n inp acc es, manyTillGo f g n inp acc = .err es → ∀ e ∈ es, e.rem ≤ inp.length := by
  intro n
  induction n with
  | zero => intro inp acc es h; simp [manyTillGo] at h
  | succ n ih =>
    intro inp acc es h
    simp only [manyTillGo] at h
    split at h
    · simp at h
    · simp at h
    · simp at h
    · split at h
      · next e h1 => simp at h; subst h; exact hf.ei _ _ h1
      · simp at h
      · simp at h
      · next r1 v1 h1 =>
        split at h
        · simp at h; subst h; exact errIn_nil
        · intro e he
          exact Nat.le_trans (ih _ _ _ h e he) (hf.sfx.len h1)

theorem good_manyTill {f : Parser α} {g : Parser β} (hf : Good f) (hg : Good g) :
    Good (manyTill f g) where
  sfx := by intro inp r v h; exact manyTillGo_sfx hf hg _ _ _ _ _ h
  np := by intro inp; exact manyTillGo_np hf hg _ _ _
  ei := by intro inp es h; exact manyTillGo_ei hf _ _ _ _ h

theorem sepLoop_sfx {sep : Parser β} {p : Parser α} (hs : Good sep) (hp : Good p) :
    ∀ n inp acc r v, sepLoop sep p n inp acc = .ok r v → r <:+ inp := by
  intro n
  induction n with
  | zero => intro inp acc r v h; simp [sepLoop] at h
  | succ n ih =>
    intro inp acc r v h
    simp only [sepLoop] at h
    split at h
    · injection h with h1 h2; exact h1 ▸ List.suffix_rfl
    · simp at h
    · simp at h
    · next r1 v1 h1 =>
      split at h
      · injection h with h1 h2; exact h1 ▸ List.suffix_rfl
      · simp at h
      · simp at h
      · next r2 v2 h2 =>
        split at h
        · simp at h
        · exact (ih _ _ _ _ h).trans ((hp.sfx _ _ _ h2).trans (hs.sfx _ _ _ h1))

theorem sepLoop_np {sep : Parser β} {p : Parser α} (hs : Good sep) (hp : Good p) :
    ∀ n inp acc, sepLoop sep p n inp acc ≠ .panic := by
  intro n
  induction n with
  | zero => intro inp acc h; simp [sepLoop] at h
  | succ n ih =>
    intro inp acc h
    simp only [sepLoop] at h
    split at h
    · simp at h
    · simp at h
    · next h1 => exact hs.np _ h1
    · split at h
      · simp at h
      · simp at h
      · next h2 => exact hp.np _ h2
      · split at h
        · simp at h
        · exact ih _ _ h

theorem sepLoop_err {sep : Parser β} {p : Parser α} :
    ∀ n inp acc es, sepLoop sep p n inp acc = .err es → es = [] := by
  intro n
  induction n with
  | zero => intro inp acc es h; simp [sepLoop] at h
  | succ n ih =>
    intro inp acc es h
    simp only [sepLoop] at h
    split at h
    · simp at h
    · simp at h
    · simp at h
    · split at h
      · simp at h
      · simp at h
      · simp at h
      · split at h
        · simp at h; exact h
        · exact ih _ _ _ h

theorem good_sepList0 {sep : Parser β} {p : Parser α} (hs : Good sep) (hp : Good p) :
    Good (sepList0 sep p) where
  sfx := by
    intro inp r v h; unfold sepList0 at h
    split at h
    · injection h with h1 h2; exact h1 ▸ List.suffix_rfl
    · simp at h
    · simp at h
    · next r1 v1 h1 => exact (sepLoop_sfx hs hp _ _ _ _ _ h).trans (hp.sfx _ _ _ h1)
  np := by
    intro inp h; unfold sepList0 at h
    split at h
    · simp at h
    · simp at h
    · next h1 => exact hp.np _ h1
    · exact sepLoop_np hs hp _ _ _ h
  ei := by
    intro inp es h; unfold sepList0 at h
    split at h
    · simp at h
    · simp at h
    · simp at h
    · rw [sepLoop_err _ _ _ _ h]; exact errIn_nil

theorem good_sepList1 {sep : Parser β} {p : Parser α} (hs : Good sep) (hp : Good p) :
    Good (sepList1 sep p) where
  sfx := by
    intro inp r v h; unfold sepList1 at h
    split at h
    · simp at h
    · simp at h
    · simp at h
    · next r1 v1 h1 => exact (sepLoop_sfx hs hp _ _ _ _ _ h).trans (hp.sfx _ _ _ h1)
  np := by
    intro inp h; unfold sepList1 at h
    split at h
    · simp at h
    · simp at h
    · next h1 => exact hp.np _ h1
    · exact sepLoop_np hs hp _ _ _ h
  ei := by
    intro inp es h; unfold sepList1 at h
    split at h
    · next e h1 => simp at h; subst h; exact hp.ei _ _ h1
    · simp at h
    · simp at h
    · rw [sepLoop_err _ _ _ _ h]; exact errIn_nil

theorem escapedGo_sfx {normal : Parser α} {ctl : UInt8} {esc : Parser β} {input : Bytes}
    (hn : Good normal) (he : Good esc) :
    ∀ n i r v, i <:+ input → escapedGo normal ctl esc input n i = .ok r v → r <:+ input := by
  intro n
  induction n with
  | zero => intro i r v _ h; simp [escapedGo] at h
  | succ n ih =>
    intro i r v hi h
    simp only [escapedGo] at h
    split at h
    · injection h with h1 h2; exact h1 ▸ List.nil_suffix
    · split at h
      · simp at h
      · simp at h
      · next i2 v2 h1 =>
        have hi2 : i2 <:+ input := (hn.sfx _ _ _ h1).trans hi
        split at h
        · injection h with h1 h2; exact h1 ▸ List.nil_suffix
        · split at h
          · injection h with h1 h2; exact h1 ▸ hi2
          · exact ih _ _ _ hi2 h
      · split at h
        · simp at h
        · next b rest _ _ =>
          have hrest : rest <:+ input := (List.suffix_cons b rest).trans hi
          split at h
          · split at h
            · simp at h
            · split at h
              · simp at h
              · simp at h
              · simp at h
              · next i2 v2 h2 =>
                have hi2 : i2 <:+ input := (he.sfx _ _ _ h2).trans hrest
                split at h
                · injection h with h1 h2; exact h1 ▸ List.nil_suffix
                · exact ih _ _ _ hi2 h
          · split at h
            · simp at h
            · injection h with h1 h2; exact h1 ▸ hi

theorem escapedGo_np {normal : Parser α} {ctl : UInt8} {esc : Parser β} {input : Bytes}
    (hn : Good normal) (he : Good esc) :
    ∀ n i, escapedGo normal ctl esc input n i ≠ .panic := by
  intro n
  induction n with
  | zero => intro i h; simp [escapedGo] at h
  | succ n ih =>
    intro i h
    simp only [escapedGo] at h
    split at h
    · simp at h
    · split at h
      · simp at h
      · next h1 => exact hn.np _ h1
      · split at h
        · simp at h
        · split at h
          · simp at h
          · exact ih _ h
      · split at h
        · simp at h
        · split at h
          · split at h
            · simp at h
            · split at h
              · simp at h
              · next h2 => exact he.np _ h2
              · simp at h
              · split at h
                · simp at h
                · exact ih _ h
          · split at h <;> simp at h

theorem escapedGo_ei {normal : Parser α} {ctl : UInt8} {esc : Parser β} {input : Bytes}
    (hn : Good normal) (he : Good esc) :
    ∀ n i es, i <:+ input → escapedGo normal ctl esc input n i = .err es →
      ∀ e ∈ es, e.rem ≤ input.length := by
  intro n
  induction n with
  | zero => intro i es _ h; simp [escapedGo] at h
  | succ n ih =>
    intro i es hi h
    simp only [escapedGo] at h
    split at h
    · simp at h
    · split at h
      · simp at h
      · simp at h
      · next i2 v2 h1 =>
        have hi2 : i2 <:+ input := (hn.sfx _ _ _ h1).trans hi
        split at h
        · simp at h
        · split at h
          · simp at h
          · exact ih _ _ hi2 h
      · split at h
        · simp at h
        · next b rest _ _ =>
          have hrest : rest <:+ input := (List.suffix_cons b rest).trans hi
          split at h
          · split at h
            · simp at h; subst h; exact errIn_nil
            · split at h
              · simp at h
              · simp at h
              · next e h2 =>
                simp at h; subst h
                intro e' he'
                exact Nat.le_trans (he.ei _ _ h2 e' he') hrest.length_le
              · next i2 v2 h2 =>
                have hi2 : i2 <:+ input := (he.sfx _ _ _ h2).trans hrest
                split at h
                · simp at h
                · exact ih _ _ hi2 h
          · split at h
            · simp at h; subst h; exact errIn_nil
            · simp at h

theorem good_escaped {normal : Parser α} {ctl : UInt8} {esc : Parser β}
    (hn : Good normal) (he : Good esc) : Good (escaped normal ctl esc) where
  sfx := by intro inp r v h; exact escapedGo_sfx hn he _ _ _ _ List.suffix_rfl h
  np := by intro inp; exact escapedGo_np hn he _ _
  ei := by intro inp es h; exact escapedGo_ei hn he _ _ _ List.suffix_rfl h

/-! ### monadic pbind (for the hand-written `match … inp with` parsers) -/

def pbind (p : Parser α) (f : α → Parser β) : Parser β := fun inp =>
  match p inp with
  | .ok r a => f a r
  | .err e => .err e
  | .oom => .oom
  | .panic => .panic

theorem good_pbind {p : Parser α} {f : α → Parser β} (hp : Good p) (hf : ∀ a, Good (f a)) :
    Good (pbind p f) where
  sfx := by
    intro inp r v h; unfold pbind at h
    split at h <;> try simp at h
    next r1 a h1 => exact ((hf a).sfx _ _ _ h).trans (hp.sfx _ _ _ h1)
  np := by
    intro inp h; unfold pbind at h
    split at h <;> try simp at h
    · next r1 a h1 => exact (hf a).np _ h
    · next h1 => exact hp.np _ h1
  ei := by
    intro inp es h; unfold pbind at h
    split at h <;> try simp at h
    · next r1 a h1 =>
      intro e he
      exact Nat.le_trans ((hf a).ei _ _ h e he) (hp.sfx.len h1)
    · next e h1 => subst h; exact hp.ei _ _ h1

def ret (v : α) : Parser α := fun i => .ok i v

theorem good_ret (v : α) : Good (fun i => Res.ok i v : Parser α) where
  sfx := by intro inp r w h; simp at h; exact h.1 ▸ List.suffix_rfl
  np := by intro inp h; simp at h
  ei := by intro inp es h; simp at h

theorem good_ite_fun {c : Prop} [Decidable c] {p q : Parser α} (hp : Good p) (hq : Good q) :
    Good (fun i => if c then p i else q i) := by
  by_cases h : c
  · simp only [h, if_true]; exact hp
  · simp only [h, if_false]; exact hq

/-! ### the `good` tactic -/

/-- one syntactic step of the `Good` derivation -/
macro "good_step" : tactic => `(tactic| with_reducible first
  | assumption
  | exact good_oom
  | exact good_tag _ | exact good_char _ | exact good_isNot _ | exact good_isA _
  | exact good_multispace0 | exact good_multispace1 | exact good_alpha1 | exact good_digit1
  | exact good_take1 _
  | exact good_ret _
  | apply good_alt_cons | apply good_alt_one | apply good_alt_nil | apply good_orElse
  | apply good_ite_fun
  | apply good_value | apply good_preceded | apply good_terminated | apply good_delimited
  | apply good_pmap | apply good_mapRes | apply good_recognize | apply good_seq
  | apply good_opt | apply good_context | apply good_pnot
  | apply good_many0 | apply good_manyTill | apply good_sepList0 | apply good_sepList1
  | apply good_escaped | apply good_pbind)

macro "good" : tactic => `(tactic| repeat' good_step)

/-! ### exact shape of successful results -/

/-- `recognize` returns exactly the consumed prefix. -/
theorem recognize_ok {p : Parser α} (hp : Sfx p) {inp r v} (h : recognize p inp = .ok r v) :
    inp = v ++ r ∧ ∃ w, p inp = .ok r w := by
  unfold recognize at h
  split at h <;> try simp at h
  next r' v' hp' =>
    obtain ⟨pre, e⟩ := hp _ _ _ hp'
    obtain ⟨h1, h2⟩ := h
    subst h1
    refine ⟨?_, v', hp'⟩
    rw [← h2, ← e]
    simp

theorem recognize_spec {p : Parser α} (hp : Sfx p) {inp r v} (h : recognize p inp = .ok r v) :
    inp = v ++ r := (recognize_ok hp h).1

theorem pmap_ok {p : Parser α} {f : α → β} {inp r v} (h : pmap p f inp = .ok r v) :
    ∃ w, p inp = .ok r w ∧ v = f w := by
  unfold pmap at h
  split at h <;> try simp at h
  next r' v' hp' => exact ⟨v', h.1 ▸ hp', h.2.symm⟩

theorem mapRes_ok {p : Parser α} {f : α → Option β} {inp r v} (h : mapRes p f inp = .ok r v) :
    ∃ w, p inp = .ok r w ∧ f w = some v := by
  unfold mapRes at h
  split at h <;> try simp at h
  next r' v' hp' =>
    split at h <;> try simp at h
    next w hw => exact ⟨v', h.1 ▸ hp', h.2 ▸ hw⟩

theorem delimited_ok {p : Parser α} {q : Parser β} {s : Parser γ} {inp r v}
    (h : delimited p q s inp = .ok r v) :
    ∃ r1 r2 a c, p inp = .ok r1 a ∧ q r1 = .ok r2 v ∧ s r2 = .ok r c := by
  unfold delimited preceded terminated at h
  obtain ⟨w, hw, rfl⟩ := pmap_ok h
  obtain ⟨r1, h1, h2⟩ := seq_ok hw
  obtain ⟨w2, hw2, e2⟩ := pmap_ok h2
  obtain ⟨r2, h3, h4⟩ := seq_ok hw2
  exact ⟨r1, r2, w.1, w2.2, h1, e2 ▸ h3, h4⟩

/-! ### `Consumes`: success eats at least one byte -/

def Consumes (p : Parser α) : Prop := ∀ inp r v, p inp = .ok r v → r.length < inp.length

theorem consumes_tag {t : Bytes} (ht : t ≠ []) : Consumes (tag t) := by
  intro inp r v h
  rw [(tag_ok h).1]
  cases t with
  | nil => exact absurd rfl ht
  | cons a t => simp; omega

theorem consumes_char (c : UInt8) : Consumes (char c) := by
  intro inp r v h; rw [(char_ok h).1]; simp

theorem consumes_take1 (p : UInt8 → Bool) : Consumes (take1 p) := by
  intro inp r v h
  obtain ⟨h1, h2⟩ := take1_ok h
  rw [h1]
  cases v with
  | nil => exact absurd rfl h2
  | cons a t => simp; omega

theorem consumes_oom : Consumes (fun _ => Res.oom : Parser α) := by
  intro inp r v h; simp at h

theorem consumes_pmap {p : Parser α} {f : α → β} (hp : Consumes p) : Consumes (pmap p f) := by
  intro inp r v h
  obtain ⟨w, hw, _⟩ := pmap_ok h
  exact hp _ _ _ hw

theorem consumes_mapRes {p : Parser α} {f : α → Option β} (hp : Consumes p) : Consumes (mapRes p f) := by
  intro inp r v h
  obtain ⟨w, hw, _⟩ := mapRes_ok h
  exact hp _ _ _ hw

theorem consumes_recognize {p : Parser α} (hp : Consumes p) : Consumes (recognize p) := by
  intro inp r v h
  unfold recognize at h
  split at h <;> try simp at h
  next r' v' hp' => exact h.1 ▸ hp _ _ _ hp'

theorem consumes_seq_left {p : Parser α} {q : Parser β} (hp : Consumes p) (hq : Sfx q) :
    Consumes (seq p q) := by
  intro inp r v h
  obtain ⟨r1, h1, h2⟩ := seq_ok h
  exact Nat.lt_of_le_of_lt (hq.len h2) (hp _ _ _ h1)

theorem consumes_seq_right {p : Parser α} {q : Parser β} (hp : Sfx p) (hq : Consumes q) :
    Consumes (seq p q) := by
  intro inp r v h
  obtain ⟨r1, h1, h2⟩ := seq_ok h
  exact Nat.lt_of_lt_of_le (hq _ _ _ h2) (hp.len h1)

theorem consumes_delimited_left {p : Parser α} {q : Parser β} {s : Parser γ}
    (hp : Consumes p) (hq : Sfx q) (hs : Sfx s) : Consumes (delimited p q s) := by
  intro inp r v h
  obtain ⟨r1, r2, a, c, h1, h2, h3⟩ := delimited_ok h
  have := hp _ _ _ h1; have := hq.len h2; have := hs.len h3
  omega

theorem consumes_orElse {p q : Parser α} (hp : Consumes p) (hq : Consumes q) : Consumes (orElse p q) := by
  intro inp r v h; unfold orElse at h
  split at h
  · exact hq _ _ _ h
  · exact hp _ _ _ h

theorem consumes_alt_one {p : Parser α} (hp : Consumes p) : Consumes (alt [p]) := hp
theorem consumes_alt_cons {p q : Parser α} {ps : List (Parser α)} (hp : Consumes p)
    (hq : Consumes (alt (q :: ps))) : Consumes (alt (p :: q :: ps)) := consumes_orElse hp hq

theorem consumes_context {p : Parser α} {msg : String} (hp : Consumes p) : Consumes (context msg p) := by
  intro inp r v h; unfold context at h
  split at h
  · simp at h
  · exact hp _ _ _ h

/-! ### `EndsEmpty`: success leaves no input -/

def EndsEmpty (p : Parser α) : Prop := ∀ inp r v, p inp = .ok r v → r = []

theorem endsEmpty_pmap {p : Parser α} {f : α → β} (hp : EndsEmpty p) : EndsEmpty (pmap p f) := by
  intro inp r v h
  obtain ⟨w, hw, _⟩ := pmap_ok h
  exact hp _ _ _ hw

theorem endsEmpty_seq_right {p : Parser α} {q : Parser β} (hq : EndsEmpty q) : EndsEmpty (seq p q) := by
  intro inp r v h
  obtain ⟨r1, _, h2⟩ := seq_ok h
  exact hq _ _ _ h2

theorem manyTillGo_endsEmpty {f : Parser α} {g : Parser β} (hg : EndsEmpty g) :
    ∀ n inp acc r v, manyTillGo f g n inp acc = .ok r v → r = [] := by
  intro n
  induction n with
  | zero => intro inp acc r v h; simp [manyTillGo] at h
  | succ n ih =>
    intro inp acc r v h
    simp only [manyTillGo] at h
    split at h
    · next r0 o h0 => injection h with h1 h2; exact h1 ▸ hg _ _ _ h0
    · simp at h
    · simp at h
    · split at h
      · simp at h
      · simp at h
      · simp at h
      · split at h
        · simp at h
        · exact ih _ _ _ _ h

theorem endsEmpty_manyTill {f : Parser α} {g : Parser β} (hg : EndsEmpty g) :
    EndsEmpty (manyTill f g) := by
  intro inp r v h; exact manyTillGo_endsEmpty hg _ _ _ _ _ h

end Nom
