import RucteProofs.SrcTreeLeaves

/-!
# The loops of the grammar over a source tree

`Parses n ns follow` says that every node of `ns` is taken by `templateExpression n` as itself when
followed by the rest of the list and `follow`.  From it: the `many_till` loop of a block / of the
template body, the `many0` loop of a block argument, the arm loop of `@match` and the `separated_list0`
loop of a call — each with the *specific* text that follows.
-/
namespace Ructe.Src
open Nom Ructe.C15 Ructe.Nodes

/-! ## heads of printed nodes -/

/-- the print of a well-formed node starts with a byte that is neither `{` nor `}` -/
theorem printNode_head (x : Node) (follow : Bytes) (h : WFNode x follow) :
    ∃ b r, printNode x = b :: r ∧ b ≠ 123 ∧ b ≠ 125 := by
  cases x with
  | text t =>
    simp only [WFNode] at h
    obtain ⟨hne, hp, _, _⟩ := h
    cases t with
    | nil => exact absurd rfl hne
    | cons c t =>
      refine ⟨c, t, by simp [printNode], ?_⟩
      simp [C01.plainText] at hp
      exact ⟨hp.1.1.2, hp.1.2⟩
  | _ => simp only [printNode]; exact ⟨64, _, rfl, by decide, by decide⟩

/-! ## `Parses` -/

/-- every node of the list is taken as itself by `templateExpression n` -/
def Parses (n : Nat) : List Node → Bytes → Prop
  | [], _ => True
  | x :: r, follow =>
    templateExpression n (printNode x ++ (printNodes r ++ follow)) = .ok (printNodes r ++ follow) (astNode x) ∧
      Parses n r follow

theorem printNodes_cons (x : Node) (r : List Node) : printNodes (x :: r) = printNode x ++ printNodes r := by
  simp [printNodes]

theorem astNodes_cons (x : Node) (r : List Node) : astNodes (x :: r) = astNode x :: astNodes r := by
  simp [astNodes]

/-- a terminator that fails on everything that starts with a byte other than `{`, `}` fails in front of
every well-formed node -/
theorem fails_of_head {β} {g : Parser β} (h : ∀ b r, b ≠ 123 → b ≠ 125 → ∃ e, g (b :: r) = .err e) :
    ∀ (x : Node) (f r : Bytes), WFNode x f → ∃ e, g (printNode x ++ r) = .err e := by
  intro x f r hx
  obtain ⟨b, t, hb, h1, h2⟩ := printNode_head x f hx
  rw [hb]
  exact h b (t ++ r) h1 h2

/-- the `many_till` loop over a well-formed, parsing list of nodes, for any terminator `g` that takes
`follow` and fails in front of every well-formed node -/
theorem manyTillGo_nodes {β} (n : Nat) (msg : String) (g : Parser β) (follow rest : Bytes) (o : β)
    (hfin : g follow = .ok rest o)
    (hfail : ∀ (x : Node) (f r : Bytes), WFNode x f → ∃ e, g (printNode x ++ r) = .err e) :
    ∀ ns, WF ns follow → Parses n ns follow → ∀ k acc, (printNodes ns ++ follow).length < k →
      manyTillGo (context msg (templateExpression n)) g k (printNodes ns ++ follow) acc
        = .ok rest (acc.reverse ++ astNodes ns, o) := by
  intro ns
  induction ns with
  | nil =>
    intro _ _ k acc hk
    cases k with
    | zero => omega
    | succ k => simp [printNodes, astNodes, manyTillGo_done hfin]
  | cons x r ih =>
    intro hwf hp k acc hk
    simp only [WF] at hwf
    simp only [Parses] at hp
    obtain ⟨b, t, hb, h1, h2⟩ := printNode_head x _ hwf.1
    cases k with
    | zero => omega
    | succ k =>
      rw [printNodes_cons, List.append_assoc] at hk ⊢
      obtain ⟨e, he⟩ := hfail x _ (printNodes r ++ follow) hwf.1
      have hlen : (printNodes r ++ follow).length < (printNode x ++ (printNodes r ++ follow)).length := by
        rw [hb]; simp only [List.length_append, List.length_cons]; omega
      rw [manyTillGo_step (e := e) he (context_ok msg hp.1) hlen]
      rw [ih hwf.2 hp.2 k _ (by omega), astNodes_cons]
      simp

theorem manyTill_nodes {β} (n : Nat) (msg : String) (g : Parser β) (follow rest : Bytes) (o : β)
    (hfin : g follow = .ok rest o)
    (hfail : ∀ (x : Node) (f r : Bytes), WFNode x f → ∃ e, g (printNode x ++ r) = .err e)
    (ns : List Node) (hwf : WF ns follow) (hp : Parses n ns follow) :
    manyTill (context msg (templateExpression n)) g (printNodes ns ++ follow) = .ok rest (astNodes ns, o) := by
  have := manyTillGo_nodes n msg g follow rest o hfin hfail ns hwf hp _ [] (Nat.lt_succ_self _)
  simpa [manyTill] using this

/-- a block `{` nodes `}` -/
theorem block_of_parses (n : Nat) (ns : List Node) (rest : Bytes) (hwf : WF ns (125 :: rest))
    (hp : Parses n ns (125 :: rest)) :
    templateBlock (n + 1) (123 :: (printNodes ns ++ 125 :: rest)) = .ok rest (astNodes ns) := by
  rw [templateBlock]
  refine preceded_of (char_cons 123 _) (CallL.pmap_of (a := (astNodes ns, (125 : UInt8))) ?_)
  refine manyTill_nodes n _ (char 125) (125 :: rest) rest 125 (char_cons 125 rest) (fails_of_head ?_) ns hwf hp
  intro b r _ h
  exact ⟨_, char_ne 125 _ (fun x e => h (List.cons.inj e).1)⟩

/-- `}` is not a node -/
theorem templateExpression_close (n : Nat) (r : Bytes) : ∃ e, templateExpression (n + 1) (125 :: r) = .err e := by
  have hopt : ∀ q : Parser Bytes, opt (preceded (char 64) q) (125 :: r) = .ok (125 :: r) none := by
    intro q
    simp [opt, preceded, pmap, seq, char]
  have hnot : isNot [64, 123, 125] (125 :: r) = .err [] := isNot_cons_false _ _ _ (by decide)
  refine ⟨[], ?_⟩
  rw [templateExpression_eq]
  simp only [pbind, hopt, str_set]
  simp [pmap, mapRes, hnot]

/-- the `many0` loop of a block argument stops in front of the closing brace -/
theorem many0Go_nodes (n : Nat) (rest : Bytes) :
    ∀ ns, WF ns (125 :: rest) → Parses (n + 1) ns (125 :: rest) → ∀ k acc, (printNodes ns ++ 125 :: rest).length < k →
      many0Go (templateExpression (n + 1)) k (printNodes ns ++ 125 :: rest) acc
        = .ok (125 :: rest) (acc.reverse ++ astNodes ns) := by
  intro ns
  induction ns with
  | nil =>
    intro _ _ k acc hk
    cases k with
    | zero => omega
    | succ k =>
      obtain ⟨e, he⟩ := templateExpression_close n rest
      simp [printNodes, astNodes, many0Go_err he]
  | cons x r ih =>
    intro hwf hp k acc hk
    simp only [WF] at hwf
    simp only [Parses] at hp
    obtain ⟨b, t, hb, _, _⟩ := printNode_head x _ hwf.1
    cases k with
    | zero => omega
    | succ k =>
      rw [printNodes_cons, List.append_assoc] at hk ⊢
      have hlen : (printNodes r ++ 125 :: rest).length < (printNode x ++ (printNodes r ++ 125 :: rest)).length := by
        rw [hb]; simp only [List.length_append, List.length_cons]; omega
      rw [many0Go_ok hp.1 hlen, ih hwf.2 hp.2 k _ (by omega), astNodes_cons]
      simp

theorem many0_nodes (n : Nat) (rest : Bytes) (ns : List Node) (hwf : WF ns (125 :: rest))
    (hp : Parses (n + 1) ns (125 :: rest)) :
    many0 (templateExpression (n + 1)) (printNodes ns ++ 125 :: rest) = .ok (125 :: rest) (astNodes ns) := by
  have := many0Go_nodes n rest ns hwf hp _ [] (Nat.lt_succ_self _)
  simpa [many0] using this

/-- lifting `Parses` to more fuel -/
theorem Parses.mono {n m : Nat} (h : n ≤ m) : ∀ {ns : List Node} {follow : Bytes}, Parses n ns follow → Parses m ns follow
  | [], _, _ => trivial
  | _ :: _, _, hp => ⟨(mono_templateExpression.le h).ok hp.1, Parses.mono h hp.2⟩

/-! ## `@match`: the arm loop -/

/-- one arm, with the specific text `R` after its closing brace (cf. `CallL.arm_step`, which asks for
the body block to parse in front of every remainder) -/
theorem arm_step' (n : Nat) (L1 pat L2 L3 body patv : Bytes) (nodes : List TExpr) (R : Bytes)
    (hL1 : CallL.Lay L1) (hL2 : CallL.Lay L2) (hL3 : CallL.Lay L3)
    (hstops : CallL.Stops pat) (hnc : ∀ r, pat ≠ 125 :: r) (hne : pat ≠ [])
    (hpat : ∀ tail, CallL.PatTail tail → expression n (pat ++ tail) = .ok tail patv)
    (hbody : templateBlock n (123 :: (body ++ 125 :: R)) = .ok R nodes) :
    (∃ e, CallL.armEnd (L1 ++ (pat ++ (L2 ++ 61 :: 62 :: (L3 ++ 123 :: (body ++ 125 :: R))))) = .err e) ∧
    CallL.armP n (L1 ++ (pat ++ (L2 ++ 61 :: 62 :: (L3 ++ 123 :: (body ++ 125 :: R))))) = .ok R (patv, nodes) := by
  have hs1 := hL1.skip _ (CallL.stops_append pat (L2 ++ 61 :: 62 :: (L3 ++ 123 :: (body ++ 125 :: R))) hstops hne
    (CallL.not_at_of_expr (hpat [61, 62] (.inr (.inr ⟨[], rfl⟩)))))
  constructor
  · refine ⟨_, preceded_err_right hs1 (char_ne 125 _ ?_)⟩
    intro x hx
    cases pat with
    | nil => exact absurd rfl hne
    | cons c pat =>
      rw [List.cons_append] at hx
      injection hx with h1 _
      exact hnc pat (by rw [h1])
  · have htail : CallL.PatTail (L2 ++ 61 :: 62 :: (L3 ++ 123 :: (body ++ 125 :: R))) := by
      rcases hL2.tail (61 :: 62 :: (L3 ++ 123 :: (body ++ 125 :: R))) with h | h | h
      · right; right; exact ⟨_, h⟩
      · left; exact h
      · right; left; exact h
    have hs2 := hL2.skip (61 :: 62 :: (L3 ++ 123 :: (body ++ 125 :: R))) (CallL.stops_cons _ _ (by decide) (by decide))
    have hs3 := hL3.skip (123 :: (body ++ 125 :: R)) (CallL.stops_cons _ _ (by decide) (by decide))
    exact context_ok _ (seq_of (delimited_of hs1 (hpat _ htail) hs2)
      (preceded_of (terminated_of (CallL.tagS_arrow _) hs3) hbody))

/-- a documented expression as a match pattern or scrutinee -/
theorem dexpr_patTail (n : Nat) (e : C05.DExpr) (hw : e.wf = true) (hn : e.fuel ≤ n) :
    ∀ tail, CallL.PatTail tail → expression n (e.print ++ tail) = .ok tail e.print := by
  rintro tail (⟨c, r, rfl, hc⟩ | ⟨r, rfl⟩ | ⟨r, rfl⟩)
  · exact dexpr_end e hw n hn c r (exprEndB_layoutHead c (.inl hc))
  · exact dexpr_end e hw n hn 64 _ (by decide)
  · exact dexpr_end e hw n hn 61 _ (by decide)

theorem dexpr_notClose (e : C05.DExpr) (hw : e.wf = true) : ∀ r, e.print ≠ 125 :: r := by
  intro r h
  obtain ⟨b, x, hbx, hb⟩ := dexpr_head e hw
  rw [hbx] at h
  obtain ⟨rfl, _⟩ := List.cons.inj h
  revert hb; decide

theorem dexpr_notOpen (e : C05.DExpr) (hw : e.wf = true) : ∀ r, e.print ≠ 123 :: r := by
  intro r h
  obtain ⟨b, x, hbx, hb⟩ := dexpr_head e hw
  rw [hbx] at h
  obtain ⟨rfl, _⟩ := List.cons.inj h
  revert hb; decide

/-- one arm of the source tree -/
theorem arm_dexpr (n : Nat) (l₁ l₂ l₃ : Layout) (h₁ : LayoutOk l₁) (h₂ : LayoutOk l₂) (h₃ : LayoutOk l₃)
    (pat : C05.DExpr) (hw : pat.wf = true) (hn : pat.fuel ≤ n) (body : List Node) (R : Bytes)
    (hbody : templateBlock n (123 :: (printNodes body ++ 125 :: R)) = .ok R (astNodes body)) :
    (∃ e, CallL.armEnd (printArm (.mk l₁ pat l₂ l₃ body) ++ R) = .err e) ∧
    CallL.armP n (printArm (.mk l₁ pat l₂ l₃ body) ++ R) = .ok R (astArm (.mk l₁ pat l₂ l₃ body)) := by
  have e : printArm (.mk l₁ pat l₂ l₃ body) ++ R = printLayout l₁ ++ (pat.print ++ (printLayout l₂ ++ 61 :: 62 ::
      (printLayout l₃ ++ 123 :: (printNodes body ++ 125 :: R)))) := by
    simp [printArm]
  rw [e, astArm]
  exact arm_step' n _ _ _ _ _ _ _ R (lay_of _ h₁) (lay_of _ h₂) (lay_of _ h₃)
    (dexpr_fragHead pat hw).stops0 (dexpr_notClose pat hw) (dexpr_fragHead pat hw).ne_nil
    (dexpr_patTail n pat hw hn) hbody

theorem printArm_length_pos (a : Arm) : 0 < (printArm a).length := by
  cases a; simp [printArm]; omega

/-- every arm of the list is one round of the arm loop -/
def ArmsParse (n : Nat) : List Arm → Bytes → Prop
  | [], _ => True
  | a :: r, F =>
    ((∃ e, CallL.armEnd (printArm a ++ (printArms r ++ F)) = .err e) ∧
      CallL.armP n (printArm a ++ (printArms r ++ F)) = .ok (printArms r ++ F) (astArm a)) ∧ ArmsParse n r F

theorem manyTillGo_arms (n : Nat) (F rest : Bytes) (hfin : CallL.armEnd F = .ok rest 125) :
    ∀ as, ArmsParse n as F → ∀ k acc, (printArms as ++ F).length < k →
      manyTillGo (CallL.armP n) CallL.armEnd k (printArms as ++ F) acc = .ok rest (acc.reverse ++ astArms as, 125) := by
  intro as
  induction as with
  | nil =>
    intro _ k acc hk
    cases k with
    | zero => omega
    | succ k => simp [printArms, astArms, manyTillGo_done hfin]
  | cons a r ih =>
    intro hp k acc hk
    simp only [ArmsParse] at hp
    obtain ⟨⟨⟨e, he⟩, ha⟩, hr⟩ := hp
    have hpos := printArm_length_pos a
    have e1 : printArms (a :: r) = printArm a ++ printArms r := by simp [printArms]
    have e2 : astArms (a :: r) = astArm a :: astArms r := by simp [astArms]
    cases k with
    | zero => omega
    | succ k =>
      rw [e1, List.append_assoc] at hk ⊢
      have hlen : (printArms r ++ F).length < (printArm a ++ (printArms r ++ F)).length := by
        simp only [List.length_append]; omega
      rw [manyTillGo_step he ha hlen, ih hr k _ (by omega), e2]
      simp

/-- **`@match`** from the arm loop -/
theorem match_node (n : Nat) (l₀ l₁ lEnd : Layout) (h₀ : LayoutOk l₀) (h₁ : LayoutOk l₁) (hEnd : LayoutOk lEnd)
    (hne : l₁ ≠ []) (e : C05.DExpr) (hw : e.wf = true) (hn : e.fuel ≤ n) (arms : List Arm) (rest : Bytes)
    (harms : ArmsParse n arms (printLayout lEnd ++ 125 :: rest)) :
    templateExpression (n + 1) (printNode (.matchOn l₀ e l₁ arms lEnd) ++ rest)
      = .ok rest (.matchBlock e.print (astArms arms)) := by
  have hloop : manyTill (CallL.armP n) CallL.armEnd (printArms arms ++ (printLayout lEnd ++ 125 :: rest))
      = .ok rest (astArms arms, 125) := by
    have := manyTillGo_arms n _ rest (CallL.armEnd_ok _ _ (lay_of lEnd hEnd)) arms harms _ [] (Nat.lt_succ_self _)
    simpa [manyTill] using this
  have hhead := CallL.match_head n (printLayout l₀) e.print (printLayout l₁) e.print
    (printArms arms ++ (printLayout lEnd ++ 125 :: rest))
    (lay_of l₀ h₀) (lay_of l₁ h₁) (printLayout_ne_nil l₁ h₁ hne) (dexpr_fragHead e hw).stops0
    (fun tail ht => dexpr_patTail n e hw hn tail (by
      rcases ht with h | h
      · exact .inl h
      · exact .inr (.inl h)))
  have e1 : printNode (.matchOn l₀ e l₁ arms lEnd) ++ rest =
      64 :: 109 :: 97 :: 116 :: 99 :: 104 :: 32 :: (printLayout l₀ ++ (e.print ++ (printLayout l₁ ++ 123 ::
        (printArms arms ++ (printLayout lEnd ++ 125 :: rest))))) := by
    simp [printNode]
  rw [e1]
  exact CallL.templateExpression_match n _ _ e.print (astArms arms) hhead _ 125 hloop

/-! ## `@:name(args)`: the argument loop -/

/-- an argument without the layout in front of it -/
def Arg.core : Arg → Bytes
  | .rust _ e => e.print
  | .block _ body after => 123 :: (printNodes body ++ 125 :: printLayout after)

theorem printArg_eq (a : Arg) : printArg a = printLayout a.pre ++ a.core := by
  cases a <;> simp [printArg, Arg.pre, Arg.core]

/-- the argument `a` in front of `X` is taken as itself, and does not start layout -/
def ArgP (n : Nat) (a : Arg) (X : Bytes) : Prop :=
  templateArgument (n + 1) (a.core ++ X) = .ok X (astArg a) ∧ CallL.Stops (a.core ++ X)

/-- a Rust expression as argument -/
theorem argP_rust (n : Nat) (pre : Layout) (e : C05.DExpr) (hw : e.wf = true) (hn : e.fuel ≤ n) (X : Bytes)
    (hX : CallL.ArgTail X) : ArgP n (.rust pre e) X := by
  have h := CallL.arg_rust n e.print e.print (dexpr_fragHead e hw).ne_nil (dexpr_notOpen e hw)
    (dexpr_fragHead e hw).stops0
    (fun tail ht => by
      rcases ht with ⟨r, rfl⟩ | ⟨r, rfl⟩
      · exact dexpr_end e hw n hn 44 r (by decide)
      · exact dexpr_end e hw n hn 41 r (by decide))
  exact ⟨h.parses X hX, h.stops X⟩

/-- a block argument, with the specific text that follows it -/
theorem argP_block (n : Nat) (pre : Layout) (body : List Node) (after : Layout) (hafter : LayoutOk after) (X : Bytes)
    (hX : CallL.ArgTail X)
    (hb : many0 (templateExpression n) (printNodes body ++ 125 :: (printLayout after ++ X))
      = .ok (125 :: (printLayout after ++ X)) (astNodes body)) :
    ArgP n (.block pre body after) X := by
  have e : (Arg.block pre body after).core ++ X = 123 :: (printNodes body ++ 125 :: (printLayout after ++ X)) := by
    simp [Arg.core]
  refine ⟨?_, ?_⟩
  · rw [e, templateArgument, astArg]
    apply alt_cons_ok
    exact CallL.pmap_of (delimited_of (char_cons 123 _) hb
      (terminated_of (char_cons 125 _) ((lay_of after hafter).skip X (CallL.stops_argTail hX))))
  · rw [e]; exact CallL.stops_cons _ _ (by decide) (by decide)

/-- the rounds of the `separated_list0` loop after the first argument -/
def MoreParse (n : Nat) : List Arg → Bytes → Prop
  | [], _ => True
  | a :: r, F => (LayoutOk a.pre ∧ ArgP n a (printMore r ++ F)) ∧ MoreParse n r F

theorem printMore_cons (a : Arg) (r : List Arg) : printMore (a :: r) = 44 :: (printArg a ++ printMore r) := by
  simp [printMore]

theorem astArgs_cons (a : Arg) (r : List Arg) : astArgs (a :: r) = astArg a :: astArgs r := by
  simp [astArgs]

theorem sepLoop_args (n : Nat) (rest : Bytes) :
    ∀ r, MoreParse n r (41 :: rest) → ∀ k acc, (printMore r ++ 41 :: rest).length < k →
      sepLoop CallL.argSep (templateArgument (n + 1)) k (printMore r ++ 41 :: rest) acc
        = .ok (41 :: rest) (acc.reverse ++ astArgs r) := by
  intro r
  induction r with
  | nil =>
    intro _ k acc hk
    cases k with
    | zero => omega
    | succ k => simp [printMore, astArgs, sepLoop_done (CallL.argSep_stop rest)]
  | cons a r ih =>
    intro hp k acc hk
    simp only [MoreParse] at hp
    obtain ⟨⟨hpre, harg, hst⟩, hr⟩ := hp
    cases k with
    | zero => omega
    | succ k =>
      have e : printMore (a :: r) ++ 41 :: rest = 44 :: (printLayout a.pre ++ (a.core ++ (printMore r ++ 41 :: rest))) := by
        rw [printMore_cons, printArg_eq]; simp
      rw [e] at hk ⊢
      have hsep := CallL.argSep_ok (printLayout a.pre) _ (lay_of a.pre hpre) hst
      have hlen : (printMore r ++ 41 :: rest).length <
          (44 :: (printLayout a.pre ++ (a.core ++ (printMore r ++ 41 :: rest)))).length := by
        simp only [List.length_append, List.length_cons]; omega
      rw [sepLoop_step hsep harg hlen, ih hr k _ (by simp only [List.length_append, List.length_cons] at hk ⊢; omega),
        astArgs_cons]
      simp

/-- the whole argument list -/
theorem sepList0_args (n : Nat) (rest : Bytes) (a : Arg) (r : List Arg) (hpre : a.pre = [])
    (ha : ArgP n a (printMore r ++ 41 :: rest)) (hr : MoreParse n r (41 :: rest)) :
    sepList0 CallL.argSep (templateArgument (n + 1)) (printArgs (a :: r) ++ 41 :: rest)
      = .ok (41 :: rest) (astArgs (a :: r)) := by
  have e : printArgs (a :: r) ++ 41 :: rest = a.core ++ (printMore r ++ 41 :: rest) := by
    simp [printArgs, printArg_eq, hpre, printLayout]
  rw [e]
  simp only [sepList0, ha.1]
  rw [sepLoop_args n rest r hr _ _ (Nat.lt_succ_self _), astArgs_cons]
  simp

theorem sepList0_noargs (n : Nat) (hn : 2 ≤ n) (rest : Bytes) :
    sepList0 CallL.argSep (templateArgument (n + 1)) (printArgs [] ++ 41 :: rest) = .ok (41 :: rest) (astArgs []) := by
  obtain ⟨m, rfl⟩ : ∃ m, n = m + 2 := ⟨n - 2, by omega⟩
  obtain ⟨e, he⟩ := CallL.arg_close m rest
  simpa [printArgs, astArgs] using CallL.sepList0_none CallL.argSep _ (41 :: rest) he

/-- **`@:name(args)`** from the argument loop -/
theorem call_node (n : Nat) (nb : UInt8) (ncs : Bytes) (hok : NameOk nb ncs) (args : List Arg) (rest : Bytes)
    (hargs : sepList0 CallL.argSep (templateArgument (n + 1)) (printArgs args ++ 41 :: rest)
      = .ok (41 :: rest) (astArgs args)) :
    templateExpression (n + 2) (printNode (.call nb ncs args) ++ rest) = .ok rest (.call (nb :: ncs) (astArgs args)) := by
  have hname : rustName (nb :: ncs ++ 40 :: (printArgs args ++ 41 :: rest)) = .ok (40 :: (printArgs args ++ 41 :: rest)) (nb :: ncs) :=
    C05.rustName_complete nb ncs _ hok.1 hok.2 (fun c r e => by
      obtain ⟨rfl, _⟩ := List.cons.inj e
      decide)
  have e : printNode (.call nb ncs args) ++ rest = 64 :: 58 :: (nb :: ncs ++ 40 :: (printArgs args ++ 41 :: rest)) := by
    simp [printNode]
  rw [e]
  exact CallL.templateExpression_call (n + 1) (nb :: ncs) _ _ rest (astArgs args) hname hargs

end Ructe.Src
