import RucteModel.Expr
open Nom

namespace Nom.Old
open Nom

/-- A parser is *suffix-respecting*: on success the rest is a suffix of the input. -/
def Sfx {α} (p : Parser α) : Prop := ∀ inp r v, p inp = .ok r v → ∃ pre, inp = pre ++ r

theorem isPrefix_some {t inp r : Bytes} (h : isPrefix t inp = some r) : inp = t ++ r := by
  induction t generalizing inp with
  | nil => simp [isPrefix] at h; simp [h]
  | cons a as ih =>
    cases inp with
    | nil => simp [isPrefix] at h
    | cons b bs =>
      simp only [isPrefix] at h
      split at h
      · next hab => subst hab; simp [ih h]
      · simp at h

theorem sfx_tag (t : Bytes) : Sfx (tag t) := by
  intro inp r v h
  unfold tag at h
  split at h
  · next r' hp => injection h with h1 h2; subst h1; exact ⟨t, isPrefix_some hp⟩
  · simp at h

theorem span_append (p : UInt8 → Bool) (inp : Bytes) : inp = (span p inp).1 ++ (span p inp).2 := by
  induction inp with
  | nil => simp [span]
  | cons b r ih =>
    simp only [span]
    split
    · simp; exact ih
    · simp

theorem sfx_isNot (s : Bytes) : Sfx (isNot s) := by
  intro inp r v h
  unfold isNot at h
  have hs := span_append (fun b => !s.contains b) inp
  split at h
  · simp at h
  · next a r' hne heq =>
    injection h with h1 h2; subst h1
    rw [heq] at hs; exact ⟨a, hs⟩

theorem sfx_pmap {α β} {p : Parser α} (f : α → β) (hp : Sfx p) : Sfx (pmap p f) := by
  intro inp r v h
  unfold pmap at h
  split at h <;> try simp at h
  next r' v' hp' => exact h.1 ▸ hp _ _ _ hp'

theorem sfx_mapRes {α β} {p : Parser α} (f : α → Option β) (hp : Sfx p) : Sfx (mapRes p f) := by
  intro inp r v h
  unfold mapRes at h
  split at h <;> try simp at h
  next r' v' hp' =>
    split at h <;> try simp at h
    exact h.1 ▸ hp _ _ _ hp'

theorem sfx_seq {α β} {p : Parser α} {q : Parser β} (hp : Sfx p) (hq : Sfx q) : Sfx (seq p q) := by
  intro inp r v h
  unfold seq at h
  split at h <;> try simp at h
  next r1 a h1 =>
    split at h <;> try simp at h
    next r2 b h2 =>
      obtain ⟨p1, e1⟩ := hp _ _ _ h1
      obtain ⟨p2, e2⟩ := hq _ _ _ h2
      exact ⟨p1 ++ p2, by rw [e1, e2, h.1]; simp⟩

theorem sfx_orElse {α} {p q : Parser α} (hp : Sfx p) (hq : Sfx q) : Sfx (orElse p q) := by
  intro inp r v h
  unfold orElse at h
  split at h
  · exact hq _ _ _ h
  · exact hp _ _ _ h

theorem sfx_many0Go {α} {p : Parser α} (hp : Sfx p) :
    ∀ n inp acc r v, many0Go p n inp acc = .ok r v → ∃ pre, inp = pre ++ r := by
  intro n
  induction n with
  | zero => intro inp acc r v h; simp [many0Go] at h
  | succ n ih =>
    intro inp acc r v h
    simp only [many0Go] at h
    split at h
    · injection h with h1 h2; exact ⟨[], by simp [h1]⟩
    · simp at h
    · simp at h
    · next r1 v1 h1 =>
      split at h
      · simp at h
      · obtain ⟨p1, e1⟩ := hp _ _ _ h1
        obtain ⟨p2, e2⟩ := ih _ _ _ _ h
        exact ⟨p1 ++ p2, by rw [e1, e2]; simp⟩

theorem sfx_many0 {α} {p : Parser α} (hp : Sfx p) : Sfx (many0 p) := by
  intro inp r v h
  exact sfx_many0Go hp _ _ _ _ _ h

/-- `recognize` returns exactly the consumed prefix. -/
theorem recognize_spec {α} {p : Parser α} (hp : Sfx p) {inp r v} (h : recognize p inp = .ok r v) :
    inp = v ++ r := by
  unfold recognize at h
  split at h <;> try simp at h
  next r' v' hp' =>
    obtain ⟨pre, e⟩ := hp _ _ _ hp'
    obtain ⟨h1, h2⟩ := h
    subst h1
    rw [← h2, e]
    simp

end Nom.Old