import RucteModel.Gen

/-! Lemma library for the build-script model (`RucteModel/Gen.lean`): the abstract file system,
`applyWrite` / `runLog`, and monotonicity of the `Log` through `handleEntries` & co. -/
namespace Ructe
open Nom

theorem FS.get_set_same (fs : FS) (p c : Bytes) : (fs.set p c).get p = some c := by
  induction fs with
  | nil => simp [FS.set, FS.get]
  | cons a r ih =>
    obtain ⟨q, d⟩ := a
    by_cases h : q = p <;> simp [FS.set, FS.get, h, ih]

theorem FS.get_set_other (fs : FS) (p q c : Bytes) (h : q ≠ p) : (fs.set p c).get q = fs.get q := by
  induction fs with
  | nil => simp [FS.set, FS.get, Ne.symm h]
  | cons a r ih =>
    obtain ⟨q', d⟩ := a
    by_cases h' : q' = p
    · subst h'; simp [FS.set, FS.get, Ne.symm h]
    · by_cases h'' : q' = q
      · subst h''; simp [FS.set, FS.get, h']
      · simp [FS.set, FS.get, h', h'', ih]

/-- the content the last request for `p` asks for, if any -/
def lastWrite (ws : List (Bytes × Bytes)) (p : Bytes) : Option Bytes :=
  (ws.reverse.find? (fun pc => pc.1 == p)).map (·.2)

theorem lastWrite_nil (p : Bytes) : lastWrite [] p = none := rfl

theorem lastWrite_cons (q c : Bytes) (ws : List (Bytes × Bytes)) (p : Bytes) :
    lastWrite ((q, c) :: ws) p =
      (match lastWrite ws p with | some d => some d | none => if q = p then some c else none) := by
  unfold lastWrite
  simp only [List.reverse_cons, List.find?_append]
  cases h : List.find? (fun pc => pc.1 == p) ws.reverse with
  | some x => simp
  | none => by_cases hq : q = p <;> simp [hq]

theorem lastWrite_eq_none_iff (ws : List (Bytes × Bytes)) (p : Bytes) :
    lastWrite ws p = none ↔ p ∉ ws.map (·.1) := by
  induction ws with
  | nil => simp [lastWrite_nil]
  | cons a r ih =>
    obtain ⟨q, c⟩ := a
    rw [lastWrite_cons]
    cases h : lastWrite r p with
    | some d =>
      have : ¬ (p ∉ r.map (·.1)) := fun hn => by rw [ih.mpr hn] at h; cases h
      simp only [List.map_cons, List.mem_cons, not_or]
      constructor
      · intro h'; cases h'
      · intro h'; exact absurd h'.2 this
    | none =>
      have := ih.mp h
      by_cases hq : q = p
      · subst hq; simp
      · simp only [List.map_cons, List.mem_cons, not_or, hq, if_false, true_iff]
        exact ⟨fun e => hq e.symm, this⟩

theorem lastWrite_mem (ws : List (Bytes × Bytes)) (p c : Bytes) (h : lastWrite ws p = some c) :
    (p, c) ∈ ws := by
  induction ws with
  | nil => simp [lastWrite_nil] at h
  | cons a r ih =>
    obtain ⟨q, d⟩ := a
    rw [lastWrite_cons] at h
    cases h' : lastWrite r p with
    | some e => rw [h'] at h; simp at h; subst h; exact List.mem_cons_of_mem _ (ih h')
    | none =>
      rw [h'] at h
      by_cases hq : q = p
      · subst hq; simp at h; subst h; simp
      · simp [hq] at h

/-- the fold of `applyWrite` on an arbitrary accumulator -/
theorem foldl_applyWrite_get (ws : List (Bytes × Bytes)) (acc : FS × List Bytes) (p : Bytes) :
    (ws.foldl applyWrite acc).1.get p =
      (match lastWrite ws p with | some c => some c | none => acc.1.get p) := by
  induction ws generalizing acc with
  | nil => simp [lastWrite_nil]
  | cons a r ih =>
    obtain ⟨q, c⟩ := a
    rw [List.foldl_cons, ih, lastWrite_cons]
    cases h : lastWrite r p with
    | some d => rfl
    | none =>
      simp only
      unfold applyWrite
      by_cases hq : q = p
      · subst hq
        by_cases hg : acc.1.get q = some c
        · simp [hg]
        · simp [hg, FS.get_set_same]
      · by_cases hg : acc.1.get q = some c
        · simp [hg, hq]
        · simp [hg, hq, FS.get_set_other _ _ _ _ (Ne.symm hq)]

theorem runLog_fs_get (fs : FS) (l : Log) (p : Bytes) :
    (runLog fs l).fs.get p = (match lastWrite l.writes p with | some c => some c | none => fs.get p) := by
  unfold runLog
  exact foldl_applyWrite_get l.writes (fs, []) p

theorem foldl_applyWrite_silent (ws : List (Bytes × Bytes)) (acc : FS × List Bytes)
    (h : ∀ pc ∈ ws, acc.1.get pc.1 = some pc.2) : ws.foldl applyWrite acc = acc := by
  induction ws with
  | nil => rfl
  | cons a r ih =>
    have h1 : applyWrite acc a = acc := by
      unfold applyWrite; simp [h a (List.mem_cons_self)]
    rw [List.foldl_cons, h1]
    exact ih (fun pc hpc => h pc (List.mem_cons_of_mem _ hpc))

theorem foldl_applyWrite_writes (ws : List (Bytes × Bytes)) (acc : FS × List Bytes) :
    ∀ p ∈ (ws.foldl applyWrite acc).2, p ∈ acc.2 ∨ p ∈ ws.map (·.1) := by
  induction ws generalizing acc with
  | nil => intro p hp; exact Or.inl hp
  | cons a r ih =>
    intro p hp
    rw [List.foldl_cons] at hp
    rcases ih _ p hp with h | h
    · unfold applyWrite at h
      split at h
      · exact Or.inl h
      · simp only [List.mem_append, List.mem_singleton] at h
        rcases h with h | h
        · exact Or.inl h
        · exact Or.inr (by simp [h])
    · exact Or.inr (by simp only [List.map_cons, List.mem_cons]; exact Or.inr h)

/-! ## The suffix table and `handleFile` -/

theorem suffixes_eq : suffixes = [str ".rs.html", str ".rs.svg", str ".rs.xml"] := rfl

/-- a name matching none of the listed suffixes is skipped without a trace -/
theorem handleFile_none (ue : Nat → Bool) (o : Log) (f fname path outdir content : Bytes) (l : List Bytes)
    (h : ∀ suf ∈ l, endsWith fname suf = false) :
    handleFile ue o f fname path outdir content l = (f, o) := by
  induction l with
  | nil => rfl
  | cons s rest ih =>
    rw [handleFile, if_neg (by simp [h s List.mem_cons_self])]
    exact ih (fun suf hs => h suf (List.mem_cons_of_mem _ hs))

/-- exactly one matching suffix: one `rerun-if-changed` line, one call of `handleTemplate` -/
theorem handleFile_unique (ue : Nat → Bool) (o : Log) (f fname path outdir content suf : Bytes) (l : List Bytes)
    (h : l.filter (fun s => endsWith fname s) = [suf]) :
    handleFile ue o f fname path outdir content l =
      (let name := fname.take (fname.length - suf.length) ++ [95] ++ suf.drop suffixSkipLen
       let r := handleTemplate ue (o.print (str "cargo:rerun-if-changed=" ++ path)) name path outdir content
       (if r.1 then f ++ templateDecl name else f, r.2)) := by
  induction l with
  | nil => simp at h
  | cons s rest ih =>
    by_cases hs : endsWith fname s = true
    · rw [List.filter_cons_of_pos hs] at h
      injection h with h1 h2
      subst h1
      have hrest : ∀ suf ∈ rest, endsWith fname suf = false := by
        intro suf hm
        have := (List.filter_eq_nil_iff.mp h2) suf hm
        simpa using this
      rw [handleFile, if_pos hs]
      simp only
      rw [handleFile_none ue _ _ fname path outdir content rest hrest]
    · rw [List.filter_cons_of_neg hs] at h
      rw [handleFile, if_neg hs]
      exact ih h

/-! ## Growth of the log -/

/-- the `cargo:rerun-if-changed=` line for a path -/
def rerun (p : Bytes) : Bytes := str "cargo:rerun-if-changed=" ++ p

/-- `b` continues `a`: requests, lines and reads are only appended, and every *new* read has its
own `rerun-if-changed` line in `b` -/
structure Grow (a b : Log) : Prop where
  writes : a.writes <+: b.writes
  stdout : a.stdout <+: b.stdout
  reads : a.reads <+: b.reads
  ann : ∀ p ∈ b.reads, p ∈ a.reads ∨ rerun p ∈ b.stdout

theorem Grow.refl (a : Log) : Grow a a :=
  ⟨List.prefix_refl _, List.prefix_refl _, List.prefix_refl _, fun _ h => Or.inl h⟩

theorem Grow.trans {a b c : Log} (h₁ : Grow a b) (h₂ : Grow b c) : Grow a c :=
  ⟨h₁.writes.trans h₂.writes, h₁.stdout.trans h₂.stdout, h₁.reads.trans h₂.reads, fun p hp => by
    rcases h₂.ann p hp with h | h
    · rcases h₁.ann p h with h' | h'
      · exact Or.inl h'
      · exact Or.inr (h₂.stdout.subset h')
    · exact Or.inr h⟩

theorem Grow.print (a : Log) (l : Bytes) : Grow a (a.print l) :=
  ⟨List.prefix_refl _, List.prefix_append _ _, List.prefix_refl _, fun _ h => Or.inl h⟩

theorem Grow.lines (a : Log) (ls : List Bytes) : Grow a { a with stdout := a.stdout ++ ls } :=
  ⟨List.prefix_refl _, List.prefix_append _ _, List.prefix_refl _, fun _ h => Or.inl h⟩

theorem Grow.write (a : Log) (p c : Bytes) : Grow a (a.write p c) :=
  ⟨List.prefix_append _ _, List.prefix_refl _, List.prefix_refl _, fun _ h => Or.inl h⟩

theorem Grow.writeIfChanged (a : Log) (p c : Bytes) : Grow a (writeIfChanged a p c) := Grow.write a p c

/-- reading a path whose line is already there -/
theorem Grow.read_of_mem (a : Log) (p : Bytes) (h : rerun p ∈ a.stdout) : Grow a (a.read p) :=
  ⟨List.prefix_refl _, List.prefix_refl _, List.prefix_append _ _, fun q hq => by
    simp only [Log.read, List.mem_append, List.mem_singleton] at hq
    rcases hq with hq | hq
    · exact Or.inl hq
    · subst hq; exact Or.inr h⟩

/-- reading a path and printing its line (in either order) -/
theorem Grow.read_print (a : Log) (p : Bytes) : Grow a ((a.read p).print (rerun p)) :=
  ⟨List.prefix_refl _, List.prefix_append _ _, List.prefix_append _ _, fun q hq => by
    simp only [Log.read, Log.print, List.mem_append, List.mem_singleton] at hq ⊢
    rcases hq with hq | hq
    · exact Or.inl hq
    · subst hq; exact Or.inr (Or.inr rfl)⟩

theorem Grow.print_read (a : Log) (p : Bytes) : Grow a ((a.print (rerun p)).read p) :=
  (Grow.print a _).trans (Grow.read_of_mem _ p (by simp [Log.print]))

/-- everything read so far has its own `rerun-if-changed` line -/
def Ann (l : Log) : Prop := ∀ p ∈ l.reads, rerun p ∈ l.stdout

theorem Grow.ann_of {a b : Log} (h : Grow a b) (ha : Ann a) : Ann b := fun p hp => by
  rcases h.ann p hp with h' | h'
  · exact h.stdout.subset (ha p h')
  · exact h'

/-- `handleTemplate` reads `path`; its line must have been printed before -/
theorem handleTemplate_grow (ue : Nat → Bool) (o : Log) (name path outdir content : Bytes)
    (h : rerun path ∈ o.stdout) : Grow o (handleTemplate ue o name path outdir content).2 := by
  have h0 := Grow.read_of_mem o path h
  unfold handleTemplate
  cases template (8 * content.length + 16) content with
  | ok _ t => exact h0.trans (Grow.writeIfChanged _ _ _)
  | err es => exact h0.trans ((Grow.print _ _).trans (Grow.lines _ _))
  | oom => exact h0.trans (Grow.print _ _)
  | panic => exact h0.trans (Grow.print _ _)

theorem handleFile_grow (ue : Nat → Bool) (o : Log) (f fname path outdir content : Bytes) (l : List Bytes) :
    Grow o (handleFile ue o f fname path outdir content l).2 ∧
    f <+: (handleFile ue o f fname path outdir content l).1 := by
  induction l generalizing o f with
  | nil => exact ⟨Grow.refl _, List.prefix_refl _⟩
  | cons s rest ih =>
    rw [handleFile]
    split
    · simp only
      refine ⟨((Grow.print o _).trans (handleTemplate_grow ue _ _ path outdir content ?_)).trans (ih _ _).1,
        List.IsPrefix.trans ?_ (ih _ _).2⟩
      · simp [Log.print, rerun]
      · split
        · exact List.prefix_append _ _
        · exact List.prefix_refl _
    · exact ih o f

theorem handleEntries_handleDir_grow (ue : Nat → Bool) :
    (∀ (o : Log) (f indir outdir : Bytes) (es : List Entry),
      Grow o (handleEntries ue o f indir outdir es).2 ∧ f <+: (handleEntries ue o f indir outdir es).1) ∧
    (∀ (o : Log) (f indir outdir : Bytes) (es : List Entry),
      Grow o (handleDir ue o f indir outdir es).2 ∧ f <+: (handleDir ue o f indir outdir es).1) := by
  apply handleEntries.mutual_induct ue
    (motive1 := fun o f indir outdir es =>
      Grow o (handleEntries ue o f indir outdir es).2 ∧ f <+: (handleEntries ue o f indir outdir es).1)
    (motive2 := fun o f indir outdir es =>
      Grow o (handleDir ue o f indir outdir es).2 ∧ f <+: (handleDir ue o f indir outdir es).1)
  · intro o f indir outdir
    rw [handleEntries]
    exact ⟨Grow.refl _, List.prefix_refl _⟩
  · intro o f indir outdir name sub rest hv outdir' modrs o1 hd o2 ih2 ih1
    subst o2 outdir'
    rw [handleEntries, if_pos hv]
    simp only [hd] at ih2 ⊢
    refine ⟨(ih2.1.trans (Grow.writeIfChanged _ _ _)).trans ih1.1, List.IsPrefix.trans ?_ ih1.2⟩
    simp only [List.append_assoc]
    exact List.prefix_append _ _
  · intro o f indir outdir name sub rest hv ih
    rw [handleEntries, if_neg hv]
    exact ih
  · intro o f indir outdir name content rest hv f1 o1 hf ih
    rw [handleEntries, if_pos hv]
    have := handleFile_grow ue o f name (joinPath indir name) outdir content suffixes
    simp only [hf] at this ⊢
    exact ⟨this.1.trans ih.1, this.2.trans ih.2⟩
  · intro o f indir outdir name content rest hv ih
    rw [handleEntries, if_neg hv]
    exact ih
  · intro o f indir outdir es o1 ih
    subst o1
    rw [handleDir]
    exact ⟨(Grow.read_print o indir).trans ih.1, ih.2⟩

theorem handleEntries_grow (ue : Nat → Bool) (o : Log) (f indir outdir : Bytes) (es : List Entry) :
    Grow o (handleEntries ue o f indir outdir es).2 ∧ f <+: (handleEntries ue o f indir outdir es).1 :=
  (handleEntries_handleDir_grow ue).1 o f indir outdir es

theorem handleDir_grow (ue : Nat → Bool) (o : Log) (f indir outdir : Bytes) (es : List Entry) :
    Grow o (handleDir ue o f indir outdir es).2 ∧ f <+: (handleDir ue o f indir outdir es).1 :=
  (handleEntries_handleDir_grow ue).2 o f indir outdir es

theorem handleEntries_app (ue : Nat → Bool) (o : Log) (f indir outdir : Bytes) (es₁ es₂ : List Entry) :
    handleEntries ue o f indir outdir (es₁ ++ es₂) =
      handleEntries ue (handleEntries ue o f indir outdir es₁).2 (handleEntries ue o f indir outdir es₁).1
        indir outdir es₂ := by
  induction es₁ generalizing o f with
  | nil => rw [List.nil_append, handleEntries]
  | cons e rest ih =>
    cases e with
    | file name content =>
      simp only [List.cons_append, handleEntries]
      split
      · exact ih _ _
      · exact ih _ _
    | dir name sub =>
      simp only [List.cons_append, handleEntries]
      split
      · exact ih _ _
      · exact ih _ _

/-! ## Static-file calls and whole build scripts -/

theorem addFilesAs_grow (ue ua : Nat → Bool) (o : Log) (s : Statics) (indir to : Bytes) (es : List Entry) :
    Grow o (addFilesAs ue ua true o s indir to es).1 := by
  fun_induction addFilesAs ue ua true o s indir to es with
  | case1 o s _ _ => exact Grow.refl _
  | case2 o s indir to name content rest to' path o1 ih =>
    exact (Grow.read_print o _).trans ih
  | case3 o s indir to name sub rest to' path o1 o2 o3 s1 heq ih1 ih2 =>
    have h0 : Grow o o2 := Grow.read_print o path
    rw [heq] at ih1
    exact (h0.trans ih1).trans ih2

theorem addFilesFlat_grow (ue ua : Nat → Bool) (o : Log) (s : Statics) (indir : Bytes) (es : List Entry) :
    Grow o (addFilesFlat ue ua o s indir es).1 := by
  fun_induction addFilesFlat ue ua o s indir es with
  | case1 o s _ => exact Grow.refl _
  | case2 o s indir name content rest path val hv o1 ih =>
    exact (Grow.read_print o _).trans ih
  | case3 o s indir name content rest path hv ih => exact ih
  | case4 o s indir name sub rest ih => exact ih

theorem Build.withStatics_out (feat : MimeFeature) (b : Build) : (b.withStatics feat).out = b.out := by
  unfold Build.withStatics; split <;> rfl

theorem Build.step_grow (ue ua : Nat → Bool) (feat : MimeFeature) (outdir : Bytes) (b : Build) (op : Op) :
    Grow b.out (Build.step ue ua feat outdir b op).out := by
  cases op with
  | compileTemplates indir entries =>
    exact (handleDir_grow ue b.out b.f indir _ entries).1
  | addFile path content =>
    simp only [Build.step]
    split
    · rw [← Build.withStatics_out feat b]; exact Grow.read_print _ _
    · rw [Build.withStatics_out]; exact Grow.refl _
  | addFiles indir entries =>
    simp only [Build.step]
    split
    · rw [← Build.withStatics_out feat b]; exact (Grow.read_print _ _).trans (addFilesFlat_grow ue ua _ _ _ _)
    · rw [Build.withStatics_out]; exact Grow.refl _
  | addFileAs path url =>
    simp only [Build.step]
    split
    · rw [← Build.withStatics_out feat b]; exact Grow.read_print _ _
    · rw [Build.withStatics_out]; exact Grow.refl _
  | addFilesAs indir to entries =>
    simp only [Build.step]
    split
    · rw [← Build.withStatics_out feat b]; exact (Grow.read_print _ _).trans (addFilesAs_grow ue ua _ _ _ _ _)
    · rw [Build.withStatics_out]; exact Grow.refl _
  | addFileData path data =>
    simp only [Build.step]
    split
    · rw [← Build.withStatics_out feat b]; exact Grow.refl _
    · rw [Build.withStatics_out]; exact Grow.refl _
  | failed static path =>
    simp only [Build.step]
    cases static
    · exact Grow.read_print _ _
    · simp only [if_true]; rw [← Build.withStatics_out feat b]; exact Grow.read_print _ _

theorem Build.foldl_step_grow (ue ua : Nat → Bool) (feat : MimeFeature) (outdir : Bytes) (ops : List Op) (b : Build) :
    Grow b.out (ops.foldl (Build.step ue ua feat outdir) b).out := by
  induction ops generalizing b with
  | nil => exact Grow.refl _
  | cons op rest ih => exact (Build.step_grow ue ua feat outdir b op).trans (ih _)

theorem Build.finish_grow (outdir : Bytes) (b : Build) : Grow b.out (b.finish outdir) := by
  unfold Build.finish
  cases b.statics with
  | none => exact Grow.writeIfChanged _ _ _
  | some s => exact (Grow.writeIfChanged _ _ _).trans (Grow.writeIfChanged _ _ _)

theorem Build.new_ann (outdir utils : Bytes) : Ann (Build.new outdir utils).out := by
  intro p hp
  simp [Build.new, writeIfChanged, Log.write] at hp

theorem buildLog_ann (ue ua : Nat → Bool) (feat : MimeFeature) (outdir utils : Bytes) (ops : List Op) :
    Ann (buildLog ue ua feat outdir utils ops) :=
  ((Build.foldl_step_grow ue ua feat outdir ops _).trans (Build.finish_grow outdir _)).ann_of
    (Build.new_ann outdir utils)

end Ructe
