import RucteModel.Tpl
import RucteProofs.Complete
import RucteProofs.NodeLemmas
import RucteProofs.FuelMono
import RucteProofs.FuelAdequate

/-!
# Lemmas about the `@if` / `@for` arms of `template_expression` (used by `RucteProps/C15Directives.lean`)

* the dispatcher after `@` on the keywords `if ` and `for ` (`templateExpression_if`, `templateExpression_for`);
* assembling `if2`, the `else` tail and the `for` arm from the results of their parts;
* the fragment parsers consume at least one byte (`consumes_condExpression`, …);
* transport of a successful result along fuel monotonicity (`Refines.ok`).
-/
namespace Nom

theorem Refines.ok {α} {p p' : Parser α} (h : Refines p p') {inp r : Bytes} {v : α}
    (hp : p inp = .ok r v) : p' inp = .ok r v := by
  rw [h inp (by rw [hp]; exact fun e => by cases e), hp]

end Nom

namespace Ructe
open Nom

/-! ## string constants -/

theorem str_else : str "else" = [101, 108, 115, 101] := by decide +kernel
theorem str_in : str "in" = [105, 110] := by decide +kernel
theorem str_let : str "let" = [108, 101, 116] := by decide +kernel
theorem str_ne : str "!=" = [33, 61] := by decide +kernel
theorem str_andand : str "&&" = [38, 38] := by decide +kernel
theorem str_le : str "<=" = [60, 61] := by decide +kernel
theorem str_lt : str "<" = [60] := by decide +kernel
theorem str_eqeq : str "==" = [61, 61] := by decide +kernel
theorem str_ge : str ">=" = [62, 61] := by decide +kernel
theorem str_gt : str ">" = [62] := by decide +kernel
theorem str_oror : str "||" = [124, 124] := by decide +kernel

/-! ## generic -/

theorem pmap_of {α β} {p : Parser α} {f : α → β} {inp r : Bytes} {a : α} (h : p inp = .ok r a) :
    pmap p f inp = .ok r (f a) := by
  simp only [pmap, h]

theorem delimited_err_mid {α β γ} {p : Parser α} {q : Parser β} {s : Parser γ} {inp r : Bytes} {a : α}
    {e : Errs} (hp : p inp = .ok r a) (hq : q r = .err e) : delimited p q s inp = .err e :=
  preceded_err_right hp (terminated_err_left hq)

/-! ## the dispatcher after `@` -/

theorem headAlt_if (i : Bytes) : Nodes.headAlt (105 :: 102 :: 32 :: i) = .ok i [105, 102] := by
  simp [Nodes.headAlt, alt, orElse, tag, isPrefix, terminated, pmap, seq]

theorem headAlt_for (i : Bytes) : Nodes.headAlt (102 :: 111 :: 114 :: 32 :: i) = .ok i [102, 111, 114] := by
  simp [Nodes.headAlt, alt, orElse, tag, isPrefix, terminated, pmap, seq]

/-- after `@if ` the rest is handed to `if2` -/
theorem templateExpression_if (n : Nat) (i : Bytes) :
    templateExpression (n + 1) (64 :: 105 :: 102 :: 32 :: i) = if2 n i := by
  rw [templateExpression_eq, Nodes.headAlt_eq]
  have h : opt (preceded (char 64) Nodes.headAlt) (64 :: 105 :: 102 :: 32 :: i) = .ok i (some [105, 102]) :=
    opt_of (preceded_of (char_cons 64 _) (headAlt_if i))
  simp only [pbind, h, Nodes.str_colon, str_at, Nodes.str_lb, Nodes.str_rb, str_star, Nodes.str_if]
  simp

/-- after `@for ` the rest is handed to the loop arm -/
theorem templateExpression_for (n : Nat) (i : Bytes) :
    templateExpression (n + 1) (64 :: 102 :: 111 :: 114 :: 32 :: i) =
      pmap (seq (forVariable n)
        (seq (delimited (terminated (context "Expected \"in\"" (tagS "in")) spacelike)
                (context "Expected iterable expression" (loopExpression n)) spacelike)
             (context "Error in loop block:" (templateBlock n))))
        (fun (name, expr, body) => TExpr.forLoop name expr body) i := by
  rw [templateExpression_eq, Nodes.headAlt_eq]
  have h : opt (preceded (char 64) Nodes.headAlt) (64 :: 102 :: 111 :: 114 :: 32 :: i) =
      .ok i (some [102, 111, 114]) :=
    opt_of (preceded_of (char_cons 64 _) (headAlt_for i))
  simp only [pbind, h, Nodes.str_colon, str_at, Nodes.str_lb, Nodes.str_rb, str_star, Nodes.str_if,
    Nodes.str_for]
  simp

/-! ## assembling the arms from their parts -/

/-- `if2` from the results of its five parts -/
theorem if2_of_parts (n : Nat) {inp r1 r2 r3 r4 rest condv : Bytes} {nodes : List TExpr}
    {els : Option (List TExpr)}
    (hs1 : spacelike inp = .ok r1 ()) (hc : condExpression n r1 = .ok r2 condv)
    (hs2 : spacelike r2 = .ok r3 ()) (hb : templateBlock n r3 = .ok r4 nodes)
    (he : opt (preceded (delimited spacelike (tagS "else") spacelike)
            (alt [preceded (tagS "if") (pmap (if2 n) (fun e => [e])), templateBlock n])) r4 = .ok rest els) :
    if2 (n + 1) inp = .ok rest (.ifBlock condv nodes els) := by
  rw [if2]
  exact context_ok _ (pmap_of (seq_of (delimited_of hs1 hc hs2) (seq_of hb he)))

/-- the `else {…}` tail from the results of its parts -/
theorem else_of_parts (n : Nat) {inp r1 x rest : Bytes} {nodes2 : List TExpr}
    (hs1 : spacelike inp = .ok ([101, 108, 115, 101] ++ r1) ())
    (hs2 : spacelike r1 = .ok (123 :: x) ())
    (hb : templateBlock n (123 :: x) = .ok rest nodes2) :
    opt (preceded (delimited spacelike (tagS "else") spacelike)
      (alt [preceded (tagS "if") (pmap (if2 n) (fun e => [e])), templateBlock n])) inp =
      .ok rest (some nodes2) := by
  have ht : tagS "else" ([101, 108, 115, 101] ++ r1) = .ok r1 [101, 108, 115, 101] := by
    rw [tagS, str_else]; exact tag_append _ _
  have hif : tagS "if" (123 :: x) = .err [] := by
    rw [tagS, Nodes.str_if]; exact tag_cons_ne _ _ _ _ (by decide)
  have halt : alt [preceded (tagS "if") (pmap (if2 n) (fun e => [e])), templateBlock n] (123 :: x) =
      .ok rest nodes2 := by
    rw [alt_cons_err (preceded_err_left hif)]; exact hb
  exact opt_of (preceded_of (delimited_of hs1 ht hs2) halt)

/-- the loop arm from the results of its parts -/
theorem for_of_parts (n : Nat) {inp r1 r2 r3 r4 r5 r6 rest patv iterv : Bytes} {nodes : List TExpr}
    (hs1 : spacelike inp = .ok r1 ())
    (hp : context "Expected loop variable name or destructuring tuple"
        (alt [mapRes (recognize (preceded rustName (opt (exprInBraces n)))) toStr,
              pmap (seq (opt (char 38)) (delimited (char 40) (commaExpressions n) (char 41)))
                (fun (pre, args) => (match pre with | some _ => str "&" | none => []) ++ str "(" ++ args ++ str ")")])
        r1 = .ok r2 patv)
    (hs2 : spacelike r2 = .ok ([105, 110] ++ r3) ())
    (hs3 : spacelike r3 = .ok r4 ())
    (hi : loopExpression n r4 = .ok r5 iterv)
    (hs4 : spacelike r5 = .ok r6 ())
    (hb : templateBlock n r6 = .ok rest nodes) :
    templateExpression (n + 1) (64 :: 102 :: 111 :: 114 :: 32 :: inp) = .ok rest (.forLoop patv iterv nodes) := by
  rw [templateExpression_for]
  have hv : forVariable n inp = .ok ([105, 110] ++ r3) patv := by
    unfold forVariable
    exact delimited_of hs1 hp hs2
  have ht : context "Expected \"in\"" (tagS "in") ([105, 110] ++ r3) = .ok r3 [105, 110] := by
    rw [tagS, str_in]; exact context_ok _ (tag_append _ _)
  exact pmap_of (seq_of hv (seq_of
    (delimited_of (terminated_of ht hs3) (context_ok _ hi) hs4) (context_ok _ hb)))

/-! ## the fragment parsers consume -/

theorem consumes_logicExpression (k n : Nat) : Consumes (logicExpression k n) := by
  cases k with
  | zero => rw [logicExpression]; exact consumes_oom
  | succ k =>
    rw [logicExpression]
    apply consumes_mapRes; apply consumes_recognize
    apply consumes_seq_right (Good.sfx (by good))
    exact consumes_seq_left (consumes_expression n) (Good.sfx (by good))

theorem consumes_condExpression (n : Nat) : Consumes (condExpression n) := by
  rw [condExpression_eq]
  apply consumes_pbind_opt
  · exact consumes_tag (by decide +kernel)
  · intro k
    exact Good.sfx (by simp only []; good)
  · simp only []
    exact consumes_context (consumes_logicExpression n n)

theorem consumes_loopExpression (n : Nat) : Consumes (loopExpression n) := by
  unfold loopExpression
  apply consumes_mapRes; apply consumes_recognize
  exact consumes_terminated_left (consumes_expression n) (Good.sfx (by good))

theorem consumes_forPattern (n : Nat) : Consumes
    (context "Expected loop variable name or destructuring tuple"
      (alt [mapRes (recognize (preceded rustName (opt (exprInBraces n)))) toStr,
            pmap (seq (opt (char 38)) (delimited (char 40) (commaExpressions n) (char 41)))
              (fun (pre, args) => (match pre with | some _ => str "&" | none => []) ++ str "(" ++ args ++ str ")")])) := by
  apply consumes_context
  apply consumes_alt_cons
  · apply consumes_mapRes; apply consumes_recognize
    exact consumes_preceded_left consumes_rustName (Good.sfx (by good))
  · apply consumes_alt_one
    apply consumes_pmap
    apply consumes_seq_right (Good.sfx (by good))
    exact consumes_delimited_left (consumes_char _) (Good.sfx (by good)) (Good.sfx (by good))

/-- a parser that consumes cannot return its whole input -/
theorem Consumes_ne {α} {p : Parser α} (hp : Consumes p) {inp : Bytes} {v : α} : p inp ≠ .ok inp v :=
  fun h => Nat.lt_irrefl _ (hp _ _ _ h)

/-! ## `relOperator` fails when, after the layout, no operator follows -/

/-- the operator alternatives fail on a first byte that starts no operator -/
theorem relOps_cons (c : UInt8) (x : Bytes)
    (hc : c ≠ 33 ∧ c ≠ 38 ∧ c ≠ 60 ∧ c ≠ 61 ∧ c ≠ 62 ∧ c ≠ 124) :
    alt [tagS "!=", tagS "&&", tagS "<=", tagS "<", tagS "==", tagS ">=", tagS ">", tagS "||"] (c :: x) =
      .err [] := by
  obtain ⟨h1, h2, h3, h4, h5, h6⟩ := hc
  simp only [tagS, str_ne, str_andand, str_le, str_lt, str_eqeq, str_ge, str_gt, str_oror, alt, orElse,
    tag_cons_ne _ _ _ _ (Ne.symm h1), tag_cons_ne _ _ _ _ (Ne.symm h2), tag_cons_ne _ _ _ _ (Ne.symm h3),
    tag_cons_ne _ _ _ _ (Ne.symm h4), tag_cons_ne _ _ _ _ (Ne.symm h5), tag_cons_ne _ _ _ _ (Ne.symm h6)]

theorem relOperator_err {tail : Bytes} (c : UInt8) (x : Bytes) (hs : spacelike tail = .ok (c :: x) ())
    (hc : c ≠ 33 ∧ c ≠ 38 ∧ c ≠ 60 ∧ c ≠ 61 ∧ c ≠ 62 ∧ c ≠ 124) :
    ∃ e, relOperator tail = .err e := by
  unfold relOperator
  exact ⟨_, mapRes_err (delimited_err_mid hs (context_err _ (relOps_cons c x hc)))⟩

end Ructe
