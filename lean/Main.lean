import RucteModel
open Nom Ructe

/-!
Line-protocol driver: one request per line on stdin, one answer per line on stdout.
`<suite> <field> <field> …`, byte-string fields hex-encoded (`-` = empty).
-/

def hexValD (c : UInt8) : UInt8 :=
  if 48 ≤ c && c ≤ 57 then c - 48 else if 97 ≤ c && c ≤ 102 then c - 87 else 0
def unhexL : List UInt8 → List UInt8
  | a :: b :: r => (hexValD a * 16 + hexValD b) :: unhexL r
  | _ => []
def unhex (s : String) : Bytes := if s == "-" then [] else unhexL s.toUTF8.toList
def hexCharD (n : UInt8) : UInt8 := if n < 10 then n + 48 else n + 87
def hex (b : Bytes) : String :=
  if b.isEmpty then "-" else
  String.fromUTF8! ⟨(b.flatMap (fun x => [hexCharD (x / 16), hexCharD (x % 16)])).toArray⟩

/-- scalars that `char::escape_debug` escapes, supplied per line by the harness as hex code points -/
def parseEsc (s : String) : List Nat :=
  (s.splitOn ",").filterMap (fun t =>
    if t.isEmpty || t == "-" then none
    else some (t.foldl (fun a c => a * 16 + (hexValD c.toNat.toUInt8).toNat) 0))

def parseResp (t : String) : Option Esc.Resp :=
  if t == "i" then some .interrupted else if t == "z" then some .zero else if t == "f" then some .fail
  else if t.startsWith "a" then (t.drop 1).toNat?.map (fun k => Esc.Resp.accept (k - 1)) else none

def fuelFor (src : Bytes) : Nat := 8 * src.length + 16

mutual
partial def dumpE : TExpr → String
  | .comment => "C"
  | .text t => "X" ++ hex t
  | .expr e => "E" ++ hex e
  | .forLoop n e b => "F(" ++ hex n ++ "," ++ hex e ++ "," ++ dumpL b ++ ")"
  | .ifBlock e b els => "I(" ++ hex e ++ "," ++ dumpL b ++ "," ++ (match els with | none => "-" | some l => dumpL l) ++ ")"
  | .matchBlock e arms => "M(" ++ hex e ++ ",[" ++ ";".intercalate (arms.map fun (p, b) => "(" ++ hex p ++ "," ++ dumpL b ++ ")") ++ "])"
  | .call n args => "K(" ++ hex n ++ ",[" ++ ";".intercalate (args.map dumpA) ++ "])"
partial def dumpL (l : List TExpr) : String := "[" ++ ";".intercalate (l.map dumpE) ++ "]"
partial def dumpA : TArg → String
  | .rust s => "R" ++ hex s
  | .body b => "B" ++ dumpL b
end

def dumpT (t : Template) : String :=
  "T([" ++ ";".intercalate (t.preamble.map hex) ++ "]," ++ hex t.typeArgs ++ ",[" ++
    ";".intercalate (t.args.map hex) ++ "]," ++ dumpL t.body ++ ")"

def showResB (inpLen : Nat) : Res Bytes → String
  | .ok r v => s!"ok {inpLen - r.length} {hex v}"
  | .err e => "err " ++ ",".intercalate (e.map fun x => s!"{inpLen - x.rem}:{hex (msgText x.msg)}")
  | .oom => "oom"
  | .panic => "panic"

def showResU (inpLen : Nat) : Res Unit → String
  | .ok r _ => s!"ok {inpLen - r.length} -"
  | .err e => "err " ++ ",".intercalate (e.map fun x => s!"{inpLen - x.rem}:{hex (msgText x.msg)}")
  | .oom => "oom"
  | .panic => "panic"

def subParser (which : String) (src : Bytes) : String :=
  let n := fuelFor src
  let l := src.length
  match which with
  | "expression" => showResB l (expression n src)
  | "spacelike" => showResU l (spacelike src)
  | "comment" => showResU l (comment src)
  | "quoted_string" => showResB l (quotedString src)
  | "rust_comment" => showResB l (rustComment src)
  | "rust_name" => showResB l (rustName src)
  | "expr_in_braces" => showResB l (exprInBraces n src)
  | "expr_inside_parens" => showResB l (exprInsideParens n src)
  | "comma_expressions" => showResB l (commaExpressions n src)
  | "type_expression" => showResU l (typeExpression n src)
  | "formal_argument" => showResB l (formalArgument n src)
  | "for_variable" => showResB l (forVariable n src)
  | "loop_expression" => showResB l (loopExpression n src)
  | "logic_expression" => showResB l (logicExpression n n src)
  | "cond_expression" => showResB l (condExpression n src)
  | _ => "bad-parser"

/-! ### `script` requests: build-script runs on the abstract file system -/

/-- entries: `f<name>:<content>` | `l<name>:<content>` (symbolic link, bytes of what it resolves to) |
`x<name>` (not a directory, cannot be read) | `d<name>(<entries>)`, comma separated; returns (entries, rest) -/
partial def parseEntries (s : List Char) : List IEntry × List Char :=
  let rec takeHex (s : List Char) (acc : List Char) : List Char × List Char :=
    match s with
    | c :: r => if c.isAlphanum || c == '-' then takeHex r (c :: acc) else (acc.reverse, s)
    | [] => (acc.reverse, [])
  let rec go (s : List Char) (acc : List IEntry) : List IEntry × List Char :=
    match s with
    | 'f' :: r =>
      let (n, r) := takeHex r []
      match r with
      | ':' :: r =>
        let (c, r) := takeHex r []
        let e := IEntry.file (unhex (String.ofList n)) (unhex (String.ofList c))
        match r with
        | ',' :: r => go r (e :: acc)
        | _ => ((e :: acc).reverse, r)
      | _ => (acc.reverse, r)
    | 'l' :: r =>
      let (n, r) := takeHex r []
      match r with
      | ':' :: r =>
        let (c, r) := takeHex r []
        let e := IEntry.link (unhex (String.ofList n)) (unhex (String.ofList c))
        match r with
        | ',' :: r => go r (e :: acc)
        | _ => ((e :: acc).reverse, r)
      | _ => (acc.reverse, r)
    | 'x' :: r =>
      -- an entry that is not a directory and cannot be read (symbolic link to nothing / to a directory)
      let (n, r) := takeHex r []
      let e := IEntry.dead (unhex (String.ofList n))
      match r with
      | ',' :: r => go r (e :: acc)
      | _ => ((e :: acc).reverse, r)
    | 'd' :: r =>
      let (n, r) := takeHex r []
      match r with
      | '(' :: r =>
        let (sub, r) := parseEntries r
        let r := match r with | ')' :: r => r | _ => r
        let e := IEntry.dir (unhex (String.ofList n)) sub
        match r with
        | ',' :: r => go r (e :: acc)
        | _ => ((e :: acc).reverse, r)
      | _ => (acc.reverse, r)
    | _ => (acc.reverse, s)
  go s []

/-- a call as written in the build script, with what the harness saw at the path the call looks at
(`!` = nothing there / not listable) -/
def parseSOp (base : Bytes) (t : String) : Option (SOp × Option (Bytes × Option Node)) :=
  let dirNode (rest : List String) : Option Node :=
    let r := ":".intercalate rest
    if r == "!" then none else some (.dir (parseEntries r.toList).1)
  -- the paths are the strings handed to the API; static calls resolve them through `path_for`
  match t.splitOn ":" with
  | "T" :: indir :: rest => some (.compileTemplates (unhex indir), some (unhex indir, dirNode rest))
  | ["F", path, content] =>
    some (.addFile (unhex path), some (pathFor base (unhex path), if content == "!" then none else some (.file (unhex content))))
  | "D" :: indir :: rest => some (.addFiles (unhex indir), some (pathFor base (unhex indir), dirNode rest))
  | ["A", path, url] => some (.addFileAs (unhex path) (unhex url), none)
  | "S" :: indir :: to :: rest => some (.addFilesAs (unhex indir) (unhex to), some (pathFor base (unhex indir), dirNode rest))
  | ["B", path, data] => some (.addFileData (unhex path) (unhex data), none)
  | _ => none

def sortPairs (l : List (Bytes × Bytes)) : List (Bytes × Bytes) :=
  (l.toArray.qsort (fun a b => bytesLt a.1 b.1)).toList

def sortBytes (l : List Bytes) : List Bytes := (l.toArray.qsort bytesLt).toList

def dedup : List Bytes → List Bytes
  | a :: b :: r => if a = b then dedup (b :: r) else a :: dedup (b :: r)
  | l => l

def nl : Bytes := [10]

def runScript (utils : Bytes) (featS outH escS alnS fsS opsS baseH : String) : String :=
  let feat := if featS == "mime03" then MimeFeature.mime03 else if featS == "http-types" then .httpTypes else .off
  let outdir := unhex outH
  let escs := parseEsc escS
  let alns := parseEsc alnS
  let fs : FS := if fsS == "-" then [] else (fsS.splitOn ",").filterMap fun t =>
    match t.splitOn ":" with
    | [p, c] => some (unhex p, unhex c)
    | _ => none
  let base := unhex baseH
  let calls := if opsS == "-" then [] else (opsS.splitOn ";").filterMap (parseSOp base)
  let script := calls.map (·.1)
  -- the input tree as the operating system showed it: one node per path looked at
  let seen : List (Bytes × Option Node) := calls.filterMap (·.2)
  let tree : InFS := fun p => (seen.find? (fun x => x.1 == p)).bind (·.2)
  let ops := script.map (SOp.resolveA base tree)
  let ue := fun c => escs.contains c
  let ua := fun c => alns.contains c
  let o := Ructe.runScriptA ue ua feat fs outdir utils base tree script
  let names := namesAfterA ue ua feat outdir utils ops
  "stdout=" ++ hex (nl.intercalate o.stdout) ++
  "|files=" ++ ",".intercalate ((sortPairs o.fs).map fun (p, c) => hex p ++ ":" ++ hex c) ++
  "|writes=" ++ ",".intercalate ((dedup (sortBytes o.writes)).map hex) ++
  "|names=" ++ ",".intercalate (names.map fun (a, b) => hex a ++ "=" ++ hex b)

/-! ### `render` requests: expected rendering of typed generated templates -/

partial def parseVal (s : List Char) : Option (Val × List Char) :=
  let takeWhileC (p : Char → Bool) (s : List Char) : List Char × List Char := (s.takeWhile p, s.dropWhile p)
  match s with
  | 'i' :: r =>
    let (neg, r) := match r with | '-' :: r' => (true, r') | _ => (false, r)
    let (d, r) := takeWhileC Char.isDigit r
    let n : Int := (String.ofList d).toNat!
    some (.int (if neg then -n else n), r)
  | 's' :: r =>
    let (h, r) := takeWhileC (fun c => c.isAlphanum || c == '-') r
    some (.str (unhex (String.ofList h)), r)
  | 'b' :: c :: r => some (.bool (c == '1'), r)
  | 'O' :: '-' :: r => some (.opt none, r)
  | 'O' :: '(' :: r =>
    match parseVal r with
    | some (v, ')' :: r') => some (.opt (some v), r')
    | _ => none
  | 'P' :: r =>
    let num (r : List Char) : Int × List Char :=
      let (neg, r) := match r with | '-' :: r' => (true, r') | _ => (false, r)
      let (d, r) := takeWhileC Char.isDigit r
      let n : Int := (String.ofList d).toNat!
      (if neg then -n else n, r)
    let (x, r) := num r
    match r with
    | '_' :: r => let (y, r) := num r; some (.pt x y, r)
    | _ => none
  | 'L' :: '[' :: r => (parseVals r ']').map fun (l, r) => (.list l, r)
  | 'T' :: '(' :: r => (parseVals r ')').map fun (l, r) => (.tup l, r)
  | _ => none
where
  parseVals (s : List Char) (close : Char) : Option (List Val × List Char) :=
    match s with
    | c :: r => if c == close then some ([], r) else
      match parseVal s with
      | some (v, ',' :: r') => (parseVals r' close).map fun (l, r'') => (v :: l, r'')
      | some (v, c' :: r') => if c' == close then some ([v], r') else none
      | _ => none
    | [] => none

def paramName (a : Bytes) : Bytes := a.takeWhile Mini.isIdChar

def renderReq (progS entryH envS : String) : String :=
  let defs := (progS.splitOn ";").filterMap fun t =>
    match t.splitOn ":" with
    | [n, src] => some (unhex n, unhex src)
    | _ => none
  let parsed := defs.map fun (n, src) => (n, template (fuelFor src) src)
  match parsed.find? (fun p => match p.2 with | .ok _ _ => false | _ => true) with
  | some (n, _) => "parse-error " ++ hex n
  | none =>
    let prog : Prog := parsed.filterMap fun (n, r) =>
      match r with
      | .ok _ t => some (n, fnOf t (t.args.map paramName))
      | _ => none
    let env : Env := if envS == "-" then [] else (envS.splitOn ";").filterMap fun t =>
      match t.splitOn "=" with
      | [n, v] => (parseVal v.toList).map fun (val, _) => (unhex n, val)
      | _ => none
    match prog.get (unhex entryH) with
    | none => "no-entry"
    | some fn =>
      -- the entry is called with the environment's values for its parameters
      let cenv : Env := fn.params.filterMap fun p => (env.get p).map (p, ·)
      match renderL Mini.sem prog 100000 fn.body cenv with
      | some out => "ok " ++ hex out
      | none => "fuel"

def handle (utils : Bytes) (line : String) : String :=
  match line.trimAscii.toString.splitOn " " with
  | ["script", featS, outH, escS, alnS, fsS, opsS] => runScript utils featS outH escS alnS fsS opsS "-"
  | ["script", featS, outH, escS, alnS, fsS, opsS, baseH] => runScript utils featS outH escS alnS fsS opsS baseH
  | ["render", progS, entryH, envS] => renderReq progS entryH envS
  | ["slug", dataH] => hex (checksumSlug (unhex dataH))
  | ["nameext", fH] => (match nameAndExt (unhex fH) with | some (a, b) => "some " ++ hex a ++ " " ++ hex b | none => "none")
  | ["mangle", alnS, fH] => hex (mangle (fun c => (parseEsc alnS).contains c) (unhex fH))
  | ["sassname", alnS, namesS, fH] =>
    let names : List (Bytes × Bytes) := if namesS == "-" then [] else (namesS.splitOn ",").filterMap fun t =>
      match t.splitOn "=" with
      | [a, b] => some (unhex a, unhex b)
      | _ => none
    (match staticName (fun c => (parseEsc alnS).contains c) names (unhex fH) with
     | some u => "some " ++ hex u
     | none => "none")
  | ["mimearg", featS, sufH] =>
    hex (mimeArg (if featS == "mime03" then .mime03 else if featS == "http-types" then .httpTypes else .off) (unhex sufH))
  | ["compile", nameH, srcH, escS] =>
    let name := unhex nameH
    let src := unhex srcH
    let escs := parseEsc escS
    match template (fuelFor src) src with
      | .ok _ t => "ok " ++ hex (writeRust (fun c => escs.contains c) t name)
      | .err es => "err " ++ hex (showErrors src es (str "cargo:warning="))
      | .oom => "oom"
      | .panic => "panic"
  | ["ast", srcH] =>
    let src := unhex srcH
    match template (fuelFor src) src with
      | .ok _ t => "ok " ++ dumpT t
      | .err es => "err " ++ ",".intercalate (es.map fun x => s!"{src.length - x.rem}:{hex (msgText x.msg)}")
      | .oom => "oom"
      | .panic => "panic"
  | ["sub", which, srcH] => subParser which (unhex srcH)
  | ["utf8", srcH] => if validUtf8 (unhex srcH) then "1" else "0"
  | ["declit", kind, litH] =>
    let r := if kind == "b" then decodeByteStrLit (unhex litH) else decodeStrLit (unhex litH)
    match r with | some v => "some " ++ hex v | none => "none"
  | ["html", mode, piecesS, schedS] =>
    let pieces : List Bytes := if piecesS == "-" then [] else
      (piecesS.splitOn ",").map (fun p => if p == "e" then [] else unhex p)
    let sched : List Esc.Resp := if schedS == "-" then [] else (schedS.splitOn ",").filterMap parseResp
    let s0 : Esc.Sink := ⟨sched, []⟩
    let fin (r : Esc.Sink × Esc.IoRes) : String := (if r.2 == Esc.IoRes.ok then "ok " else "err ") ++ hex r.1.got
    match mode with
    | "esc" => fin (Esc.toHtmlDisplay pieces s0)
    | "raw" => fin (Esc.toHtmlRaw pieces s0)
    | "buf" => match Esc.toBufferDisplay pieces with
      | some b => fin (Esc.bufferToHtml b s0)
      | none => "err -"
    | "bufbuf" => match (Esc.toBufferDisplay pieces).bind Esc.bufferToBuffer with
      | some b => fin (Esc.bufferToHtml b s0)
      | none => "err -"
    | _ => "bad-mode"
  | _ => "bad-line"

partial def loop (h : IO.FS.Stream) (out : IO.FS.Stream) (utils : Bytes) : IO Unit := do
  let line ← h.getLine
  if line.isEmpty then return ()
  if line.startsWith "setutils " then
    out.putStrLn "ok"
    loop h out (unhex (line.drop 9).trimAscii.toString)
  else
    out.putStrLn (handle utils line)
    loop h out utils

def main : IO Unit := do
  let out ← IO.getStdout
  loop (← IO.getStdin) out []
