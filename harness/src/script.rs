//! Suite `script`: whole build-script runs (`Ructe::new`, `compile_templates`, `statics()`,
//! `add_*`, the two `Drop`s) through the public API on scratch directories, in a child process
//! so that the `cargo:` lines printed to stdout can be captured.
use crate::util::*;
use std::collections::{BTreeMap, BTreeSet};
use std::io::Write;
use std::path::{Path, PathBuf};
use std::time::{Duration, SystemTime};

#[derive(Clone, Debug)]
pub enum Step {
    Write(String, Vec<u8>),
    /// write an input file and give it a modification time in the past (a file restored by
    /// `cp -p`, tar or a VCS checkout)
    WriteOld(String, Vec<u8>),
    /// replace the content of an existing input file by other bytes of the same length and put its
    /// modification time back (`cp -p`, `rsync -t`, an edit within the clock's granularity)
    WriteSameStamp(String, Vec<u8>),
    Mkdir(String),
    /// a file relative to the directory the build script is *started in* (not the crate directory): relative
    /// paths handed to the API are resolved against the crate directory, never against the current directory
    CwdWrite(String, Vec<u8>),
    /// a symbolic link `link -> target` (target relative to the link's directory, as `ln -s` takes it)
    Symlink(String, String),
    Remove(String),
    OutWrite(String, Vec<u8>),
    OutRemove(String),
    Run,
}

#[derive(Clone, Debug)]
pub enum SOp {
    T(String),
    F(String),
    D(String),
    A(String, String),
    S(String, String),
    B(String, Vec<u8>),
    /// add_sass_file(path); the second field lists every file the stylesheet loads (itself, partials,
    /// imports), which the model cannot know (rsass is opaque) but the harness does: it wrote them
    X(String, Vec<String>),
    /// the closure / thread that holds the StaticFiles handle panics here (after the calls before it); the panic
    /// is caught and the build script goes on: the handle is dropped by unwinding
    P,
}

#[derive(Clone, Debug)]
pub struct Scenario {
    pub kind: &'static str,
    pub steps: Vec<Step>,
    pub script: Vec<SOp>,
    /// scenarios with the same non-zero twin id have the same input tree in a different
    /// creation order / location: their outputs must agree (C18)
    pub twin: usize,
}

pub fn feature_name() -> &'static str {
    if cfg!(feature = "mime03") {
        "mime03"
    } else if cfg!(feature = "http-types") {
        "http-types"
    } else {
        "off"
    }
}

// ------------------------------------------------------------------------------------ child
/// `harness runscript <file>`: executes the ops of one run with the real ructe.
pub fn child(file: &str) {
    let text = std::fs::read_to_string(file).unwrap();
    let mut lines = text.lines();
    let out = unhex_s(lines.next().unwrap());
    let base = unhex_s(lines.next().unwrap());
    let names_file = unhex_s(lines.next().unwrap());
    std::env::set_var("CARGO_MANIFEST_DIR", &base);
    // both constructors: `from_env` reads OUT_DIR, `new` takes the path
    let via_env = out.len() % 2 == 1;
    if via_env {
        std::env::set_var("OUT_DIR", &out);
    }
    let made = if via_env { ructe::Ructe::from_env() } else { ructe::Ructe::new(PathBuf::from(&out)) };
    let mut ructe = match made {
        Ok(r) => r,
        Err(e) => {
            println!("HARNESS-ERROR new: {e:?}");
            return;
        }
    };
    let ops: Vec<Vec<String>> = lines.map(|l| l.split(' ').map(|s| s.to_string()).collect()).collect();
    let has_statics = ops.iter().any(|o| o[0] != "T");
    let mut names = String::new();
    if has_statics {
        // the order of interleaved template and static calls is kept by running all template
        // calls that precede the first static call first, then holding the statics handle
        let first_static = ops.iter().position(|o| o[0] != "T").unwrap();
        for o in &ops[..first_static] {
            if let Err(e) = ructe.compile_templates(unhex_s(&o[1])) {
                println!("HARNESS-ERROR compile_templates: {e:?}");
            }
        }
        let names_cell = std::cell::RefCell::new(String::new());
        let _ = std::panic::catch_unwind(std::panic::AssertUnwindSafe(|| {
            let mut st = match ructe.statics() {
                Ok(s) => s,
                Err(e) => {
                    println!("HARNESS-ERROR statics: {e:?}");
                    return;
                }
            };
            for o in &ops[first_static..] {
                if o[0] == "P" {
                    for (k, v) in st.get_names() {
                        names_cell.borrow_mut().push_str(&format!("{}={}\n", hex(k.as_bytes()), hex(v.as_bytes())));
                    }
                    panic!("the closure holding the StaticFiles handle panics");
                }
                let r = match o[0].as_str() {
                    "F" => st.add_file(unhex_s(&o[1])).map(|_| ()),
                    "D" => st.add_files(unhex_s(&o[1])).map(|_| ()),
                    "A" => st.add_file_as(unhex_s(&o[1]), &unhex_s(&o[2])).map(|_| ()),
                    "S" => st.add_files_as(unhex_s(&o[1]), &unhex_s(&o[2])).map(|_| ()),
                    "B" => st.add_file_data(unhex_s(&o[1]), &unhex(&o[2])).map(|_| ()),
                    #[cfg(feature = "sass")]
                    "X" => st.add_sass_file(unhex_s(&o[1])).map(|_| ()),
                    "T" => Ok(()), // handled after the statics handle is dropped
                    _ => Ok(()),
                };
                if let Err(e) = r {
                    println!("HARNESS-ERROR {}: {e:?}", o[0]);
                }
            }
            for (k, v) in st.get_names() {
                names_cell.borrow_mut().push_str(&format!("{}={}\n", hex(k.as_bytes()), hex(v.as_bytes())));
            }
        }));
        names = names_cell.into_inner();
        for o in &ops[first_static..] {
            if o[0] == "T" {
                if let Err(e) = ructe.compile_templates(unhex_s(&o[1])) {
                    println!("HARNESS-ERROR compile_templates: {e:?}");
                }
            }
        }
    } else {
        for o in &ops {
            if let Err(e) = ructe.compile_templates(unhex_s(&o[1])) {
                println!("HARNESS-ERROR compile_templates: {e:?}");
            }
        }
    }
    drop(ructe);
    std::fs::write(names_file, names).unwrap();
}

fn unhex_s(h: &str) -> String {
    String::from_utf8_lossy(&unhex(h)).into_owned()
}

// ------------------------------------------------------------------------------------ parent
fn snapshot(dir: &Path) -> BTreeMap<String, Vec<u8>> {
    fn walk(base: &Path, d: &Path, out: &mut BTreeMap<String, Vec<u8>>) {
        let Ok(rd) = std::fs::read_dir(d) else { return };
        for e in rd.flatten() {
            let p = e.path();
            if p.is_dir() {
                walk(base, &p, out);
            } else if let Ok(b) = std::fs::read(&p) {
                out.insert(p.display().to_string(), b);
            }
        }
        let _ = base;
    }
    let mut m = BTreeMap::new();
    walk(dir, dir, &mut m);
    m
}

/// modification times before a run (the files' own times are left alone: ructe, or a changed
/// ructe, may legitimately or illegitimately look at them)
fn mtimes(dir: &Path) -> BTreeMap<String, Option<SystemTime>> {
    snapshot(dir).keys().map(|p| (p.clone(), std::fs::metadata(p).and_then(|m| m.modified()).ok())).collect()
}

fn written(dir: &Path, before: &BTreeMap<String, Option<SystemTime>>) -> BTreeSet<String> {
    let mut w = BTreeSet::new();
    for p in snapshot(dir).keys() {
        let m = std::fs::metadata(p).and_then(|m| m.modified()).ok();
        if before.get(p) != Some(&m) {
            w.insert(p.clone());
        }
    }
    w
}

fn is_template(name: &str) -> bool {
    name.ends_with(".rs.html") || name.ends_with(".rs.svg") || name.ends_with(".rs.xml")
}

/// the whole subtree of a directory in `read_dir` order, encoded for the Lean driver (`!` = cannot be
/// listed).  The encoding is always complete (every file with its bytes), so that one path means one
/// thing whichever call looks at it; which of the entries count as *inputs that must be announced*
/// depends on the call: `recursive` (sub-directories are walked) and `contents` (0: every file is
/// embedded but none is read, 1: template files are read, 2: every file is read).
fn encode_entries(dir: &Path, recursive: bool, contents: u8, inputs: &mut Vec<(String, bool)>) -> String {
    fn go(dir: &Path, recursive: bool, contents: u8, track: bool, inputs: &mut Vec<(String, bool)>) -> Option<String> {
        let rd = std::fs::read_dir(dir).ok()?;
        let mut v = Vec::new();
        for e in rd.flatten() {
            let name = e.file_name().to_string_lossy().into_owned();
            let p = e.path();
            let is_link = std::fs::symlink_metadata(&p).map(|m| m.file_type().is_symlink()).unwrap_or(false);
            if is_link {
                // a symbolic link is neither `is_file()` nor `is_dir()` for `DirEntry::file_type`: the static calls
                // skip it, compile_templates opens it like a file if its name has a template suffix
                if track && contents == 1 && is_template(&name) {
                    inputs.push((p.display().to_string(), false));
                }
                match std::fs::read(&p) {
                    Ok(c) => v.push(format!("l{}:{}", hex(name.as_bytes()), hex(&c))),
                    // a link to nothing, or to a directory: not a directory for `DirEntry::file_type`, and cannot be
                    // read — `handle_entries` gives up there if the name has a template suffix (model: `Abort.lean`)
                    Err(_) => v.push(format!("x{}", hex(name.as_bytes()))),
                }
            } else if p.is_dir() {
                let t = track && recursive;
                if t {
                    inputs.push((p.display().to_string(), true));
                }
                v.push(format!("d{}({})", hex(name.as_bytes()), go(&p, recursive, contents, t, inputs).unwrap_or_default()));
            } else {
                let want = contents == 2 || (contents == 1 && is_template(&name));
                if track && (want || contents == 0) {
                    inputs.push((p.display().to_string(), false));
                }
                let c = std::fs::read(&p).unwrap_or_default();
                v.push(format!("f{}:{}", hex(name.as_bytes()), hex(&c)));
            }
        }
        Some(v.join(","))
    }
    go(dir, recursive, contents, true, inputs).unwrap_or_else(|| "!".to_string())
}

fn uni_alnum_set(s: &str) -> String {
    let mut v: Vec<u32> = s.chars().filter(|c| !c.is_ascii() && c.is_alphanumeric()).map(|c| c as u32).collect();
    v.sort_unstable();
    v.dedup();
    if v.is_empty() {
        "-".into()
    } else {
        v.iter().map(|c| format!("{c:x}")).collect::<Vec<_>>().join(",")
    }
}

pub struct RunResult {
    pub stdout: Vec<String>,
    pub after: BTreeMap<String, Vec<u8>>,
    pub writes: BTreeSet<String>,
    pub names: Vec<(String, String)>,
    pub req: String,
    pub answer: String,
    pub inputs: Vec<(String, bool)>,
}

/// one run of the scenario's script: returns the request line for the model and the
/// implementation's answer in the same canonical form
/// `spell` selects how each path is spelled when it is handed to the API (a build script spells its paths
/// the same way on every run, so it is constant within a scenario, and the same for twins)
pub fn run_once(exe: &Path, root: &Path, outdir: &Path, script: &[SOp], k: usize, spell: usize) -> RunResult {
    let indir = root.join("in");
    let before = snapshot(outdir);
    let before_times = mtimes(outdir);
    // a write in the same clock tick as the file's last modification would go unnoticed
    std::thread::sleep(Duration::from_millis(3));
    // the statics handle is held from the first static call to the end of the static calls;
    // template calls after the first static call run once it is dropped (see `child`)
    let script: Vec<SOp> = {
        let first_static = script.iter().position(|o| !matches!(o, SOp::T(_))).unwrap_or(script.len());
        let mut v: Vec<SOp> = script[..first_static].to_vec();
        v.extend(script[first_static..].iter().filter(|o| !matches!(o, SOp::T(_))).cloned());
        v.extend(script[first_static..].iter().filter(|o| matches!(o, SOp::T(_))).cloned());
        v
    };
    let mut ops_model = Vec::new();
    let mut child_ops = Vec::new();
    let mut inputs: Vec<(String, bool)> = Vec::new();
    let mut alltext = String::new();
    let abs = |rel: &str| -> String {
        if rel.starts_with('/') {
            rel.to_string()
        } else {
            indir.join(rel).display().to_string()
        }
    };
    for (i, op) in script.iter().enumerate() {
        // alternate between relative (resolved through CARGO_MANIFEST_DIR) and absolute paths
        // the string handed to the API: absolute, relative (resolved by ructe through CARGO_MANIFEST_DIR), or
        // relative in another spelling (`./x`)
        let pass = |rel: &str| -> String {
            if rel.starts_with('/') {
                rel.to_string()
            } else {
                match (i + spell) % 3 {
                    0 => abs(rel),
                    1 => rel.to_string(),
                    _ => format!("./{rel}"),
                }
            }
        };
        // directories may be written with a trailing separator
        let pass_dir = |rel: &str| -> String {
            let p = pass(rel);
            if (i + 2 * spell) % 5 == 3 && !p.ends_with('/') {
                format!("{p}/")
            } else {
                p
            }
        };
        match op {
            SOp::T(d) => {
                let a = abs(d);
                inputs.push((a.clone(), true));
                ops_model.push(format!("T:{}:{}", hex(a.as_bytes()), encode_entries(Path::new(&a), true, 1, &mut inputs)));
                // compile_templates does not go through path_for: always absolute
                child_ops.push(format!("T {}", hex(a.as_bytes())));
                alltext.push_str(&a);
            }
            SOp::F(p) => {
                let a = abs(p);
                // a file without an extension is skipped by add_file: it does not influence the output
                let fname = a.rsplit('/').next().unwrap_or("");
                if fname != ".." && fname.rfind('.').map_or(false, |i| i > 0) {
                    inputs.push((a.clone(), false));
                }
                let c = std::fs::read(&a).map(|c| hex(&c)).unwrap_or_else(|_| "!".to_string());
                ops_model.push(format!("F:{}:{}", hex(pass(p).as_bytes()), c));
                child_ops.push(format!("F {}", hex(pass(p).as_bytes())));
                alltext.push_str(&a);
            }
            SOp::D(d) => {
                let a = abs(d);
                inputs.push((a.clone(), true));
                let mut sub = Vec::new();
                ops_model.push(format!("D:{}:{}", hex(pass_dir(d).as_bytes()), encode_entries(Path::new(&a), false, 2, &mut sub)));
                inputs.extend(sub);
                child_ops.push(format!("D {}", hex(pass_dir(d).as_bytes())));
                alltext.push_str(&a);
            }
            SOp::A(p, u) => {
                let a = abs(p);
                inputs.push((a.clone(), false));
                ops_model.push(format!("A:{}:{}", hex(pass(p).as_bytes()), hex(u.as_bytes())));
                child_ops.push(format!("A {} {}", hex(pass(p).as_bytes()), hex(u.as_bytes())));
                alltext.push_str(&a);
                alltext.push_str(u);
            }
            SOp::S(d, to) => {
                let a = abs(d);
                inputs.push((a.clone(), true));
                ops_model.push(format!("S:{}:{}:{}", hex(pass_dir(d).as_bytes()), hex(to.as_bytes()), encode_entries(Path::new(&a), true, 0, &mut inputs)));
                child_ops.push(format!("S {} {}", hex(pass_dir(d).as_bytes()), hex(to.as_bytes())));
                alltext.push_str(&a);
                alltext.push_str(to);
            }
            SOp::X(p, loaded) => {
                for l in loaded {
                    inputs.push((abs(l), false));
                }
                child_ops.push(format!("X {}", hex(pass(p).as_bytes())));
                alltext.push_str(&abs(p));
            }
            SOp::P => {
                child_ops.push("P".to_string());
            }
            SOp::B(p, data) => {
                let a = abs(p);
                ops_model.push(format!("B:{}:{}", hex(pass(p).as_bytes()), hex(data)));
                child_ops.push(format!("B {} {}", hex(pass(p).as_bytes()), hex(data)));
                alltext.push_str(&a);
            }
        }
    }
    for (p, _) in &inputs {
        alltext.push_str(p);
    }
    let names_file = root.join(format!("names{k}.txt"));
    let script_file = root.join(format!("script{k}.txt"));
    let mut text = format!("{}\n{}\n{}\n", hex(outdir.display().to_string().as_bytes()), hex(indir.display().to_string().as_bytes()), hex(names_file.display().to_string().as_bytes()));
    for o in &child_ops {
        text.push_str(o);
        text.push('\n');
    }
    std::fs::write(&script_file, text).unwrap();
    let outp = std::process::Command::new(exe).arg("runscript").arg(&script_file).current_dir(root).output().unwrap();
    let stdout_text = String::from_utf8_lossy(&outp.stdout).into_owned();
    let mut stdout: Vec<String> = stdout_text.split('\n').map(|s| s.to_string()).collect();
    if stdout.last().map_or(false, |l| l.is_empty()) {
        stdout.pop();
    }
    if !outp.status.success() {
        stdout.push(format!("HARNESS-ERROR child exit {:?}: {}", outp.status.code(), String::from_utf8_lossy(&outp.stderr)));
    }
    let after = snapshot(outdir);
    let writes = written(outdir, &before_times);
    let names: Vec<(String, String)> = std::fs::read_to_string(&names_file)
        .unwrap_or_default()
        .lines()
        .filter_map(|l| l.split_once('=').map(|(a, b)| (a.to_string(), b.to_string())))
        .collect();
    let fs_s = if before.is_empty() {
        "-".to_string()
    } else {
        before.iter().map(|(p, c)| format!("{}:{}", hex(p.as_bytes()), hex(c))).collect::<Vec<_>>().join(",")
    };
    let ops_s = if ops_model.is_empty() { "-".to_string() } else { ops_model.join(";") };
    for (p, c) in after.iter() {
        alltext.push_str(p);
        alltext.push_str(&String::from_utf8_lossy(c));
    }
    let req = format!(
        "script {} {} {} {} {} {} {}",
        feature_name(),
        hex(outdir.display().to_string().as_bytes()),
        uni_esc_set(alltext.as_bytes()),
        uni_alnum_set(&alltext),
        fs_s,
        ops_s,
        hex(indir.display().to_string().as_bytes())
    );
    let answer = format!(
        "stdout={}|files={}|writes={}|names={}",
        // lines of the harness' own child (an `Err` returned by a call) are not output of ructe
        hex(stdout.iter().filter(|l| !l.starts_with("HARNESS-ERROR")).cloned().collect::<Vec<_>>().join("\n").as_bytes()),
        after.iter().map(|(p, c)| format!("{}:{}", hex(p.as_bytes()), hex(c))).collect::<Vec<_>>().join(","),
        writes.iter().map(|p| hex(p.as_bytes())).collect::<Vec<_>>().join(","),
        names.iter().map(|(a, b)| format!("{a}={b}")).collect::<Vec<_>>().join(",")
    );
    RunResult { stdout, after, writes, names, req, answer, inputs }
}

pub fn apply(root: &Path, outdir: &Path, s: &Step) {
    let indir = root.join("in");
    match s {
        Step::Write(rel, c) => {
            let p = indir.join(rel);
            if let Some(d) = p.parent() {
                let _ = std::fs::create_dir_all(d);
            }
            let _ = std::fs::write(p, c);
        }
        Step::WriteOld(rel, c) => {
            let p = indir.join(rel);
            if let Some(d) = p.parent() {
                let _ = std::fs::create_dir_all(d);
            }
            let _ = std::fs::write(&p, c);
            if let Ok(f) = std::fs::File::options().write(true).open(&p) {
                let _ = f.set_modified(SystemTime::now() - Duration::from_secs(3600));
            }
        }
        Step::WriteSameStamp(rel, c) => {
            let p = indir.join(rel);
            let old = std::fs::metadata(&p).and_then(|m| m.modified()).ok();
            let _ = std::fs::write(&p, c);
            if let (Some(t), Ok(f)) = (old, std::fs::File::options().write(true).open(&p)) {
                let _ = f.set_modified(t);
            }
        }
        Step::Mkdir(rel) => {
            let _ = std::fs::create_dir_all(indir.join(rel));
        }
        Step::CwdWrite(rel, c) => {
            let p = root.join(rel);
            if let Some(d) = p.parent() {
                let _ = std::fs::create_dir_all(d);
            }
            let _ = std::fs::write(p, c);
        }
        Step::Symlink(link, target) => {
            let p = indir.join(link);
            if let Some(d) = p.parent() {
                let _ = std::fs::create_dir_all(d);
            }
            let _ = std::os::unix::fs::symlink(target, p);
        }
        Step::Remove(rel) => {
            let p = indir.join(rel);
            if p.is_dir() {
                let _ = std::fs::remove_dir_all(p);
            } else {
                let _ = std::fs::remove_file(p);
            }
        }
        Step::OutWrite(rel, c) => {
            let p = outdir.join(rel);
            if let Some(d) = p.parent() {
                let _ = std::fs::create_dir_all(d);
            }
            let _ = std::fs::write(p, c);
        }
        Step::OutRemove(rel) => {
            let _ = std::fs::remove_file(outdir.join(rel));
        }
        Step::Run => {}
    }
}

// ------------------------------------------------------------------------------------ generators
const GOOD_TEMPLATES: &[&str] = &[
    "@()\n<p>hello</p>\n",
    "@(name: &str)\n<h1>Hello @name!</h1>\n",
    "@(n: usize)\n@if n > 1 {many} else {few}\n",
    "@(items: &[&str])\n<ul>@for i in items {<li>@i</li>}</ul>\n",
    "@()\n@* only a comment *@\n",
    "@(a: &str, b: i32)\n@a/@b \u{e9}\u{1F600}\n",
    "@use std::fmt::Display;\n@(x: &dyn Display)\n@x\n",
    // several use lines, one of them repeated: each becomes the identical `use` item, in source order
    "@use std::fmt::Display;\n@use std::io::Write as _;\n@use std::fmt::Display;\n@use super::Html as Markup;\n@use std::collections::BTreeMap;\n@use std::fmt::Debug;\n@use std::fmt::Display;\n@(x: &dyn Display)\n<b>@x</b>\n",
    "@use a::b;\n@use c::d;\n@use a::b;\n@use e::f;\n@use g::h;\n@use i::j;\n@()\nrepeated uses\n",
    // imports spelled like the markers a code generator fills in
    "@use crate::helpers::{name};\n@use m::{args};\n@use m::{generics};\n@use m::{preamble, body};\n@(name: &str)\n<i>@name</i>\n",
];
const BAD_TEMPLATES: &[&str] = &["@(\n", "@()\n@if x {", "no declaration", "@()\n@for a b {}", "@()\n\u{e9}@{x}@(", "@()\n@* \u{e5} *@ @if { x }"];
const DIRS: &[&str] = &["sub", "admin", "a", "b2", "deep_dir", "x", "mysub"];
// (names where one is a proper tail of another: page / homepage, item / list_item)
const STEMS: &[&str] = &["page", "index", "base", "item", "t1", "footer", "err", "homepage", "list_item"];
const EXTS: &[&str] = &["html", "svg", "xml"];
// (the empty stem: a file called just `.rs.html` is a template named `_html`; it must not borrow a name from its directory)
const STEMS_ODD: &[&str] = &["my-page", "my_page", "404", "n404", "a.b", "a_b", "a b", "Page", "page_", "pag\u{e9}", "r#page", "page.rs", "", ""];

fn rand_tree(r: &mut Rng, depth: usize, prefix: &str, out: &mut Vec<Step>, allow_bad: bool) {
    let n = r.range(0, 4);
    for _ in 0..n {
        // mostly identifier stems; sometimes stems that are not identifiers, in groups that any
        // "identifier-making" normalisation would map to one name (each file name is its own template)
        let stem = if r.chance(1, 7) { *r.pick(STEMS_ODD) } else { *r.pick(STEMS) };
        match r.below(10) {
            0..=5 => {
                let ext = *r.pick(EXTS);
                let c: Vec<u8> = if r.chance(1, 12) {
                    // template files that are not valid UTF-8 (a Latin-1 encoded file): a stray byte inside a
                    // comment is skipped with the comment (the template is valid); in the text it is an ordinary
                    // parse failure — warned about, undeclared, and no concern of any other template
                    if allow_bad && r.chance(1, 2) {
                        r.pick(&[&b"@()\n<p>caf\xe9</p>\n"[..], &b"@(a: &str)\n@a \xff\n"[..], &b"\xc3@()\nx"[..]]).to_vec()
                    } else {
                        r.pick(&[&b"@()\n@* caf\xe9 au lait *@\n<p>legacy</p>\n"[..], &b"@* \xff\xfe *@\n@(n: usize)\n@* \x80 *@<b>@n</b>\n"[..]]).to_vec()
                    }
                } else if r.chance(1, 9) {
                    // templates around the sizes at which buffers, blocks and excerpts end (256, 4096, 8192 bytes), made of
                    // two-byte characters in both parities, so that such an edge falls inside a character: generated
                    // files of several blocks, diagnostics that quote a line of many hundred bytes
                    let shift = if r.chance(1, 2) { "x" } else { "" };
                    let shift2 = if r.chance(1, 2) { "y" } else { "" };
                    if allow_bad && r.chance(1, 2) {
                        let k = *r.pick(&[90usize, 128, 160, 300, 2100]);
                        format!("@()\n{shift}{}@if {{ oops }}{shift2}{}\n", "\u{e9}".repeat(k), "\u{e5}".repeat(k)).into_bytes()
                    } else {
                        let k = *r.pick(&[120usize, 2040, 2100, 3000, 4100]);
                        format!("@(n: usize)\n{shift}{}<b>@n</b>{shift2}{}\n", "\u{e9}".repeat(k), "\u{e5}".repeat(k / 2)).into_bytes()
                    }
                } else if allow_bad && r.chance(1, 5) {
                    r.pick(BAD_TEMPLATES).as_bytes().to_vec()
                } else {
                    r.pick(GOOD_TEMPLATES).as_bytes().to_vec()
                };
                out.push(Step::Write(format!("{prefix}{stem}.rs.{ext}"), c));
                if let Some(i) = STEMS_ODD.iter().position(|s| *s == stem) {
                    if r.chance(1, 2) {
                        // its neighbour in the list (the name a normalisation would confuse it with), same
                        // directory, same suffix, another template
                        let twin = STEMS_ODD[i ^ 1];
                        out.push(Step::Write(format!("{prefix}{twin}.rs.{ext}"), r.pick(GOOD_TEMPLATES).as_bytes().to_vec()));
                    }
                }
            }
            6 => {
                // names that are *nearly* template names, next to a template of the same stem or alone; half of
                // them hold a perfectly valid template (a file with another name must still produce nothing)
                let other = match r.below(3) {
                    0 => (*r.pick(&["README.md", "page.html", "x.rs", "style.css", ".hidden", "t.rs.htm", "u.rs.html.bak", "rs.html"])).to_string(),
                    1 => format!("{stem}.rs.{}{}", r.pick(EXTS), r.pick(&[".orig", ".bak", "~", ".in", ".rs.html.j2", "l", ".", ".tmp.swp"])),
                    _ => format!("{stem}{}", r.pick(&[".html", ".rs", ".rs.", ".rs.htm", ".rs.HTML", ".rs.txt", ".html.rs", ".rshtml", "_rs.html", ".rs_html", ".RS.html", ".rs.svgz", ".rs.xml.dist"])),
                };
                let c: &[u8] = if r.chance(1, 2) { r.pick(GOOD_TEMPLATES).as_bytes() } else { b"not a template @(" };
                out.push(Step::Write(format!("{prefix}{other}"), c.to_vec()));
            }
            _ => {
                if depth > 0 {
                    // now and then a directory named like the function of a sibling template (`page_html/` beside
                    // `page.rs.html`): a module and a function of one name live in different namespaces
                    let d: String = if r.chance(1, 5) {
                        let ext = *r.pick(EXTS);
                        out.push(Step::Write(format!("{prefix}{stem}.rs.{ext}"), r.pick(GOOD_TEMPLATES).as_bytes().to_vec()));
                        if r.chance(1, 2) { format!("{stem}_{ext}") } else { format!("template_{stem}_{ext}") }
                    } else {
                        r.pick(DIRS).to_string()
                    };
                    out.push(Step::Mkdir(format!("{prefix}{d}")));
                    rand_tree(r, depth - 1, &format!("{prefix}{d}/"), out, allow_bad);
                }
            }
        }
    }
}

fn dedup_steps(steps: Vec<Step>) -> Vec<Step> {
    // a later write to the same path replaces the earlier one (keeps trees well-defined)
    let mut seen = BTreeSet::new();
    let mut out = Vec::new();
    for s in steps.into_iter().rev() {
        let key = match &s {
            Step::Write(p, _) | Step::WriteOld(p, _) => p.clone(),
            Step::Mkdir(p) => format!("{p}/"),
            Step::Symlink(p, _) => format!("{p}@"),
            _ => String::new(),
        };
        if key.is_empty() || seen.insert(key) {
            out.push(s);
        }
    }
    out.reverse();
    out
}

const STATIC_NAMES: &[&str] = &[
    "style.css", "app.js", "logo.png", "a-b.css", "a_b.css", "a.b.css", "A.css", "a.CSS", "17.css", "9lives.jpeg", "we ird.css",
    "x+y.svg", "data.json", "font.woff2", "font.woff", "pic.JPG", "pic.Jpeg", "doc.html", "doc.htm", "note.txt", "mod.wasm", "feed.xml",
    "icon.ico", "anim.gif", "img.bmp", "cb.jsonp", "noext", ".hidden", "trail.", "tr\u{e9}s.css", "a'b.css", "a\"b.css", "back\\slash.css",
    "q{1}.css", "sty-le.min.css", "_under.css", "Z9.z9", "caf\u{e9}.\u{e9}xt", "dollar$.css", "semi;colon.css", "hash#tag.css", "at@sign.css",
    "100%.css", "a,b.css", "(p).css", "[b].css", "t~.css", "ex!.css", "eq=.css", "amp&.css", "caret^.css", "tick`.css", "pipe|.css",
    "lt<.css", "gt>.css", "q?.css", "star*.css", "col:on.css",
    // names that collide with url directory prefixes (`to/…`, `pkg/1.0/…`, `v1.2/x/…`): a hashed `to-<hash>.css`
    // sorts before `to/…` in byte order ('-' < '.' < '/'), after it in path-component order
    "to.css", "to-x.css", "to x.css", "pkg.js", "pkg-1.js", "v1.2.css", "to", "to.", "inner.css", "inner-a.css",
    // stems that end like a content hash (`-` and eight characters of the hash alphabet); names whose first letter or digit
    // comes after leading punctuation
    "site-settings.css", "img-carousel.js", "report-20260930.js", "x-abcdefgh.css", "theme-dark_red.css", "_1.js", "-2x.png", ".3d.obj", "__404__.html",
    // a quote directly followed by a hash (ends a one-hash raw string); white space at either end of a name
    "note \"#1\".txt", "q\"#.css", "\"#.js", " draft.css", "notes.txt ", " 2col.css",
    // hidden files with a known suffix
    ".theme.css", ".settings.json", "._logo.png",
    // punctuation in the extension
    "index.html~", "hello.c++", "7.tar-gz", "notes.txt#1", "a.b c", "x.y_z", "x.(1)", "q.a'b", "w.$$", "e.@", "r.{}", "t.[0]", "y.%20", "u.=", "i.!",
];

/// a random file name over printable ASCII (no `/`), with a dot somewhere in the middle
fn rand_ascii_name(r: &mut Rng) -> String {
    let ch = |r: &mut Rng| -> char {
        loop {
            let c = (0x20 + r.below(0x5f)) as u8 as char;
            if c != '/' {
                return c;
            }
        }
    };
    let mut s = String::new();
    for _ in 0..r.range(1, 3) {
        s.push(ch(r));
    }
    s.push('.');
    for _ in 0..r.range(0, 3) {
        s.push(ch(r));
    }
    s
}

fn names_scenario(r: &mut Rng) -> Scenario {
    // many names through add_file_data / add_file_as (no file needs to exist for either)
    let mut script = Vec::new();
    let mut seen = BTreeSet::new();
    for _ in 0..r.range(10, 40) {
        let n = rand_ascii_name(r);
        if n == ".." || !seen.insert(n.clone()) {
            continue;
        }
        if r.chance(1, 4) {
            script.push(SOp::A(format!("virtual/{n}"), format!("{}{n}", r.pick(&["to/", "", "v1.2/x/"]))));
        } else {
            script.push(SOp::B(format!("virtual/{n}"), rand_content(r)));
        }
    }
    Scenario { kind: "names", steps: vec![Step::Run], script, twin: 0 }
}
const _UNUSED: &[&str] = &[];


fn rand_content(r: &mut Rng) -> Vec<u8> {
    match r.below(8) {
        0 => vec![],
        1 => vec![r.next() as u8],
        2 => (0..=255u8).collect(),
        3 => {
            let n = *r.pick(&[55usize, 56, 57, 63, 64, 65, 119, 120, 128]);
            r.bytes(n)
        }
        4 => {
            if r.chance(1, 3) {
                // around and beyond typical I/O buffer sizes
                let n = *r.pick(&[4095usize, 4096, 8193, 65535, 65536, 65537, 70001, 131073]);
                r.bytes(n)
            } else {
                b"body{color:black}\n".to_vec()
            }
        }
        5 => {
            if r.chance(1, 2) {
                b"\"quoted\" \\ back\nslash \r\n\t\0 \x7f \xff".to_vec()
            } else {
                // text that looks like the placeholders of a template for the generated item
                b"Unsupported type {mime}; {content} {name} {path} {rust_name} {} {0} {{x}} %s $1".to_vec()
            }
        }
        _ => {
            let n = r.range(1, 300);
            r.bytes(n)
        }
    }
}

fn statics_scenario(r: &mut Rng, twin: usize) -> Scenario {
    let mut steps = Vec::new();
    let mut script = Vec::new();
    // a flat directory for add_files, a nested one for add_files_as, single files
    let nflat = r.range(0, 5);
    let mut used = BTreeSet::new();
    for _ in 0..nflat {
        let n = *r.pick(STATIC_NAMES);
        if used.insert(n) {
            steps.push(Step::Write(format!("static/{n}"), rand_content(r)));
        }
    }
    if nflat > 0 || r.chance(1, 2) {
        steps.push(Step::Mkdir("static".into()));
        if r.chance(1, 3) {
            steps.push(Step::Mkdir("static/ignored_dir".into()));
            steps.push(Step::Write("static/ignored_dir/deep.css".into(), b"x".to_vec()));
        }
        script.push(SOp::D("static".into()));
    }
    for _ in 0..r.below(4) {
        let n = *r.pick(STATIC_NAMES);
        let rel = format!("single/{n}");
        steps.push(Step::Write(rel.clone(), rand_content(r)));
        if r.chance(1, 3) {
            // a file of the same relative name, with other bytes, where the build script is started
            steps.push(Step::CwdWrite(rel.clone(), b"decoy in the current directory".to_vec()));
        }
        match r.below(3) {
            0 => script.push(SOp::F(rel)),
            1 => {
                let pre = *r.pick(&["", "to/", "v1.2/x/"]);
                script.push(SOp::A(rel.clone(), format!("{pre}{n}")));
                if r.chance(1, 3) {
                    // the same file published under names that extend / truncate the first one
                    script.push(SOp::A(rel.clone(), format!("{pre}{n}.map")));
                    if n.len() > 2 {
                        script.push(SOp::A(rel, format!("{pre}{}", &n[..n.char_indices().nth(n.chars().count() / 2).map_or(1, |x| x.0).max(1)])));
                    }
                }
            }
            _ => script.push(SOp::B(format!("virtual/{n}"), rand_content(r))),
        }
    }
    if r.chance(1, 6) {
        // two contents whose MD5 digests agree in their first 48 bits, i.e. in the whole 8-character slug (found by
        // cycle search): the files are different files, each with its own bytes, whatever is keyed on the slug
        let (c1, c2): (&[u8], &[u8]) = (b"/* theme 48cf88cf71cd */\nbody{margin:0}\n", b"/* theme ed2535160a8a */\nbody{margin:0}\n");
        if r.chance(1, 2) {
            script.push(SOp::B("virtual/day.css".into(), c1.to_vec()));
            script.push(SOp::B("virtual/night.css".into(), c2.to_vec()));
        } else {
            steps.push(Step::Write("single/day.css".into(), c1.to_vec()));
            steps.push(Step::Write("single/dark.css".into(), c2.to_vec()));
            script.push(SOp::F("single/day.css".into()));
            script.push(SOp::F("single/dark.css".into()));
        }
    }
    if r.chance(1, 2) {
        steps.push(Step::Mkdir("as".into()));
        for _ in 0..r.below(4) {
            let n = *r.pick(STATIC_NAMES);
            steps.push(Step::Write(format!("as/{n}"), rand_content(r)));
            // verbatim URL names where one is a proper prefix of another (`app.js`, `app.js.map`, `app.js.map.gz`)
            if r.chance(1, 3) {
                steps.push(Step::Write(format!("as/{n}.map"), rand_content(r)));
                if r.chance(1, 2) {
                    steps.push(Step::Write(format!("as/{n}.map.gz"), rand_content(r)));
                }
                if r.chance(1, 2) {
                    steps.push(Step::Write(format!("as/{n}~"), rand_content(r)));
                }
            }
        }
        if r.chance(1, 2) {
            steps.push(Step::Mkdir("as/inner".into()));
            steps.push(Step::Write(format!("as/inner/{}", r.pick(STATIC_NAMES)), rand_content(r)));
            if r.chance(1, 2) {
                steps.push(Step::Write(format!("as/inner/more/{}", r.pick(STATIC_NAMES)), rand_content(r)));
            }
        }
        script.push(SOp::S("as".into(), r.pick(&["", "to", "pkg/1.0"]).to_string()));
    }
    if r.chance(1, 3) {
        steps.push(Step::Write("templates/page.rs.html".into(), GOOD_TEMPLATES[1].as_bytes().to_vec()));
        script.push(SOp::T("templates".into()));
    }
    if r.chance(1, 5) {
        // a file added by name through a symbolic link whose target is called something else (a content-addressed
        // store): identifier and URL name come from the name it was added under, the bytes from the target
        let (link, target) = *r.pick(&[("logo.png", "9f3c2a.png"), ("style.css", "style.v2.min.css"), ("app.js", "noextension"), ("7up.txt", "blob.bin")]);
        steps.push(Step::Write(format!("store/{target}"), rand_content(r)));
        steps.push(Step::Symlink(format!("bylink/{link}"), format!("../store/{target}")));
        if r.chance(1, 2) {
            script.push(SOp::F(format!("bylink/{link}")));
        } else {
            script.push(SOp::A(format!("bylink/{link}"), format!("ln/{link}")));
        }
    }
    if r.chance(1, 4) {
        // paths as people write them: `./x`, `dir/../x`, and a `..` that crosses a symbolic link — the file the
        // operating system resolves (realdeep/odd.css) is not the one at the lexically tidied path (odd.css)
        let n = *r.pick(&["odd.css", "odd.js", "o-d.d.txt"]);
        steps.push(Step::Mkdir("realdeep/inner".into()));
        steps.push(Step::Write(format!("realdeep/{n}"), rand_content(r)));
        steps.push(Step::Write(n.to_string(), b"decoy at the lexical location".to_vec()));
        steps.push(Step::Symlink("lnk".into(), "realdeep/inner".into()));
        steps.push(Step::Write(format!("single/dotted/{n}"), rand_content(r)));
        steps.push(Step::Mkdir("single/dotted/sub".into()));
        match r.below(4) {
            0 => script.push(SOp::F(format!("lnk/../{n}"))),
            1 => script.push(SOp::A(format!("lnk/../{n}"), format!("to/{n}"))),
            2 => script.push(SOp::F(format!("single/./dotted/sub/../{n}"))),
            _ => script.push(SOp::A(format!("./single/dotted/./{n}"), format!("dots/{n}"))),
        }
    }
    if r.chance(1, 3) {
        // symbolic links inside the listed directories (a vendored asset linked from node_modules, a dangling
        // link, a link to a directory): the static calls skip them — and must not trip over them
        steps.push(Step::Write("linktargets/big.css".into(), r.bytes(300)));
        steps.push(Step::Mkdir("linktargets/dir".into()));
        for d in ["static", "as", "as/inner"] {
            if steps.iter().any(|s| matches!(s, Step::Mkdir(p) if p == d)) {
                let up = if d.contains('/') { "../.." } else { ".." };
                match r.below(4) {
                    0 => steps.push(Step::Symlink(format!("{d}/{}", r.pick(&["aa-link.css", "mid-link.css", "zz-link.css", "link"])), format!("{up}/linktargets/big.css"))),
                    1 => steps.push(Step::Symlink(format!("{d}/dangling.js"), "nowhere/at/all.js".into())),
                    2 => steps.push(Step::Symlink(format!("{d}/dirlink"), format!("{up}/linktargets/dir"))),
                    _ => {}
                }
            }
        }
    }
    if r.chance(1, 6) {
        // optional directories that do not exist (`let _ = statics.add_files_as("node_modules/dist", "vendor");`)
        script.push(SOp::S("no_such_dir/dist".into(), "vendor".into()));
        if r.chance(1, 2) {
            script.push(SOp::D("no_such_static".into()));
        }
    }
    // shuffle the script order
    for i in (1..script.len()).rev() {
        let j = r.below(i + 1);
        script.swap(i, j);
    }
    if r.chance(1, 8) && !script.is_empty() && script.iter().all(|o| !matches!(o, SOp::T(_))) {
        // the handle is dropped by unwinding: everything added before is still written out
        script.push(SOp::P);
    }
    let mut steps = dedup_steps(steps);
    steps.push(Step::Run);
    if r.chance(1, 3) {
        // a second run into the same OUT_DIR after the content of an input changed at the same size and
        // with the same modification time: the published name must follow the content
        let cands: Vec<(String, Vec<u8>)> = steps
            .iter()
            .filter_map(|s| if let Step::Write(p, c) = s { if !c.is_empty() && (p.starts_with("static/") || p.starts_with("single/") || p.starts_with("as/")) { Some((p.clone(), c.clone())) } else { None } } else { None })
            .collect();
        if !cands.is_empty() {
            let (p, mut c) = r.pick(&cands).clone();
            let i = r.below(c.len());
            c[i] = c[i].wrapping_add(1 + r.below(200) as u8);
            steps.push(Step::WriteSameStamp(p, c));
            steps.push(Step::Run);
        }
    }
    Scenario { kind: "statics", steps, script, twin }
}

/// C17 with the `sass` feature: stylesheets whose partials / imports live in the same directory, in a
/// sub-directory, in a sibling directory (`../shared/_colors.scss`) and two levels away
fn sass_scenario(r: &mut Rng) -> Scenario {
    let mut steps = Vec::new();
    let mut script = Vec::new();
    let layouts: &[(&str, &[(&str, &str)], &str)] = &[
        ("scss/site/style.scss", &[("scss/site/_layout.scss", "layout"), ("scss/shared/_colors.scss", "../shared/colors")], "body{margin:0}"),
        ("scss/style.scss", &[("scss/_a.scss", "a"), ("scss/parts/_b.scss", "parts/b")], "p{x:1}"),
        ("style.scss", &[], "a{b:c}"),
        ("scss/deep/er/main.scss", &[("scss/_top.scss", "../../top"), ("scss/deep/_mid.scss", "../mid"), ("vendor/lib/_v.scss", "../../../vendor/lib/v")], "i{j:k}"),
        ("scss/one.scss", &[("scss/two.scss", "two.scss"), ("other/_three.scss", "../other/three")], "q{r:s}"),
    ];
    let n = r.range(1, 3);
    for i in 0..n {
        let (main, parts, body) = *r.pick(layouts);
        let main = format!("s{i}/{main}");
        let mut text = String::new();
        let mut loaded = vec![main.clone()];
        for (file, import) in parts.iter() {
            if r.chance(3, 4) {
                let f = format!("s{i}/{file}");
                steps.push(Step::Write(f.clone(), format!("$c{}: red;\n.from_{} {{ c: d }}\n", loaded.len(), loaded.len()).into_bytes()));
                text.push_str(&format!("@import \"{import}\";\n"));
                loaded.push(f);
            }
        }
        text.push_str(body);
        text.push('\n');
        steps.push(Step::Write(main.clone(), text.into_bytes()));
        script.push(SOp::X(main, loaded));
    }
    if r.chance(1, 2) {
        steps.push(Step::Write("static/logo.png".into(), rand_content(r)));
        script.insert(0, SOp::F("static/logo.png".into()));
    }
    steps.push(Step::Run);
    Scenario { kind: "sassimports", steps, script, twin: 0 }
}

fn tree_scenario(r: &mut Rng, twin: usize, allow_bad: bool) -> Scenario {
    let mut steps = vec![Step::Mkdir("templates".into())];
    rand_tree(r, 3, "templates/", &mut steps, allow_bad);
    if r.chance(1, 6) {
        // a template that is a symbolic link (shared between two crates): compiled like any other
        steps.push(Step::Write("shared/linked.rs.html".into(), GOOD_TEMPLATES[1].as_bytes().to_vec()));
        steps.push(Step::Symlink("templates/linked.rs.html".into(), "../shared/linked.rs.html".into()));
    }
    if allow_bad && r.chance(1, 5) {
        // a draft that ends inside a comment, among templates that contain a comment end: whichever is read next must
        // still be compiled from its own bytes alone
        steps.push(Step::Write(format!("templates/{}.rs.html", r.pick(&["a_draft", "m_draft", "zz_draft"])), b"@()\n<p>draft</p>\n@* unfinished".to_vec()));
        for stem in ["about", "contact", "news"] {
            if r.chance(2, 3) {
                steps.push(Step::Write(format!("templates/{stem}.rs.{}", r.pick(EXTS)), GOOD_TEMPLATES[4].as_bytes().to_vec()));
            }
        }
    }
    let mut script = vec![SOp::T("templates".into())];
    if r.chance(1, 4) {
        // a second template directory compiled by the same Ructe (mail templates next to the pages): its functions
        // join the same `templates` module; nothing the first call produced may be disturbed
        let mut any = false;
        for stem in ["notice", "digest", "receipt"] {
            if r.chance(2, 3) {
                let c = if allow_bad && r.chance(1, 6) { BAD_TEMPLATES[1] } else { *r.pick(GOOD_TEMPLATES) };
                steps.push(Step::Write(format!("mail/{stem}.rs.{}", r.pick(EXTS)), c.as_bytes().to_vec()));
                any = true;
            }
        }
        if !any {
            steps.push(Step::Mkdir("mail".into()));
        }
        if r.chance(1, 2) {
            script.push(SOp::T("mail".into()));
        } else {
            script.insert(0, SOp::T("mail".into()));
        }
    }
    if r.chance(1, 8) {
        // an optional template directory that does not exist: the call fails, the script goes on
        if r.chance(1, 2) {
            script.insert(0, SOp::T("no_such_templates".into()));
        } else {
            script.push(SOp::T("no_such_templates".into()));
        }
    }
    let mut steps = dedup_steps(steps);
    steps.push(Step::Run);
    Scenario { kind: "tree", steps, script, twin }
}

/// a template tree holding an entry that cannot be read (a symbolic link to nothing, or to a directory) under a
/// template name: `compile_templates` gives up there with `Err`, the script goes on.  What was processed before
/// depends on the `read_dir` order, so only the model (which is given that order) judges these runs.
fn dead_scenario(r: &mut Rng) -> Scenario {
    let mut steps = vec![Step::Mkdir("templates".into())];
    rand_tree(r, 3, "templates/", &mut steps, true);
    // directories that exist in the tree
    let mut dirs: Vec<String> = vec!["templates".into()];
    for st in &steps {
        if let Step::Write(p, _) = st {
            if let Some(i) = p.rfind('/') {
                let d = p[..i].to_string();
                if d.starts_with("templates") && !dirs.contains(&d) {
                    dirs.push(d);
                }
            }
        }
    }
    for _ in 0..1 + r.below(2) {
        let d = dirs[r.below(dirs.len())].clone();
        let up = "../".repeat(d.matches('/').count() + 1);
        match r.below(4) {
            0 => steps.push(Step::Symlink(format!("{d}/{}", r.pick(&["gone.rs.html", "a_gone.rs.svg", "zz_gone.rs.xml", "m.rs.html"])), "nowhere/at/all.rs.html".into())),
            1 => {
                steps.push(Step::Write("shared/adir/inner.rs.html".into(), GOOD_TEMPLATES[0].as_bytes().to_vec()));
                steps.push(Step::Symlink(format!("{d}/{}", r.pick(&["asdir.rs.html", "k.rs.svg"])), format!("{up}shared/adir")));
            }
            // not a template name: never opened, as if it were not there
            2 => steps.push(Step::Symlink(format!("{d}/{}", r.pick(&["dangling.txt", "gone.html", "README"])), "nowhere".into())),
            _ => {
                steps.push(Step::Mkdir("shared/bdir".into()));
                steps.push(Step::Symlink(format!("{d}/{}", r.pick(&["linkeddir", "sub.rs"])), format!("{up}shared/bdir")));
            }
        }
    }
    let mut script = vec![SOp::T("templates".into())];
    if r.chance(1, 3) {
        steps.push(Step::Write(format!("mail/notice.rs.{}", r.pick(EXTS)), r.pick(GOOD_TEMPLATES).as_bytes().to_vec()));
        if r.chance(1, 2) {
            script.push(SOp::T("mail".into()));
        } else {
            script.insert(0, SOp::T("mail".into()));
        }
    }
    if r.chance(1, 3) {
        script.push(SOp::B("after.css".into(), b"body{}".to_vec()));
    }
    let mut steps = dedup_steps(steps);
    steps.push(Step::Run);
    if r.chance(1, 3) {
        // a second run into the same OUT_DIR: the same walk, cut short at the same place
        steps.push(Step::Run);
    }
    Scenario { kind: "dead", steps, script, twin: 0 }
}

fn shuffled_twin(r: &mut Rng, s: &Scenario) -> Scenario {
    // same tree, different creation order (on tmpfs read_dir yields reverse creation order)
    // (only what precedes the first run: later steps are edits between runs of the original, not part of the tree)
    let mut writes: Vec<Step> = s.steps.iter().take_while(|x| !matches!(x, Step::Run)).cloned().collect();
    for i in (1..writes.len()).rev() {
        let j = r.below(i + 1);
        writes.swap(i, j);
    }
    writes.push(Step::Run);
    Scenario { kind: "twin", steps: writes, script: s.script.clone(), twin: s.twin }
}

fn history_scenario(r: &mut Rng) -> Scenario {
    let mut steps = vec![Step::Mkdir("templates".into()), Step::Mkdir("static".into())];
    rand_tree(r, 2, "templates/", &mut steps, true);
    steps.push(Step::Write("static/style.css".into(), b"a{}".to_vec()));
    if r.chance(1, 4) {
        steps.push(Step::Write("shared/linked.rs.html".into(), GOOD_TEMPLATES[3].as_bytes().to_vec()));
        steps.push(Step::Symlink("templates/linked.rs.html".into(), "../shared/linked.rs.html".into()));
    }
    let mut steps = dedup_steps(steps);
    steps.push(Step::Run);
    let mut script = vec![SOp::T("templates".into()), SOp::D("static".into())];
    if r.chance(1, 5) {
        // an optional template directory that is not there: the call fails, the script goes on
        if r.chance(1, 2) {
            script.insert(0, SOp::T("no_such_templates".into()));
        } else {
            script.insert(1, SOp::T("no_such_templates".into()));
        }
    }
    // (the target of a symbolic link is not edited: a dangling link makes compile_templates fail half-way, which is
    // an error of the build script's environment, not something the properties speak about)
    let files: Vec<String> = steps.iter().filter_map(|s| if let Step::Write(p, _) = s { Some(p.clone()) } else { None }).filter(|p| !p.starts_with("shared/")).collect();
    let nedits = r.range(1, 4);
    for _ in 0..nedits {
        match r.below(12) {
            0 => steps.push(Step::Write(format!("templates/{}.rs.html", r.pick(STEMS)), r.pick(GOOD_TEMPLATES).as_bytes().to_vec())),
            1 => {
                if !files.is_empty() {
                    let f = r.pick(&files).clone();
                    let c = r.pick(GOOD_TEMPLATES).as_bytes().to_vec();
                    steps.push(if r.chance(1, 2) { Step::WriteOld(f, c) } else { Step::Write(f, c) });
                }
            }
            2 => {
                if !files.is_empty() {
                    steps.push(Step::Remove(r.pick(&files).clone()));
                }
            }
            3 => {
                if !files.is_empty() {
                    steps.push(Step::Write(r.pick(&files).clone(), r.pick(BAD_TEMPLATES).as_bytes().to_vec()));
                }
            }
            4 => steps.push(Step::Write(format!("templates/{}/{}.rs.svg", r.pick(DIRS), r.pick(STEMS)), r.pick(GOOD_TEMPLATES).as_bytes().to_vec())),
            5 => steps.push(Step::Remove(format!("templates/{}", r.pick(DIRS)))),
            6 => steps.push(Step::Write(format!("static/{}", r.pick(STATIC_NAMES)), rand_content(r))),
            7 => {
                // crash residue / garbage in an output file
                // (also files *next to* the outputs — `<output>.tmp`, `<output>~` — with more bytes than any output
                // has: a build that writes through a scratch file and died leaves such a file behind)
                let target = *r.pick(&["templates.rs", "templates/_utils.rs", "templates/statics.rs", "templates/template_page_html.rs", "templates/sub/mod.rs", "templates/template_index_html.rs",
                    "templates.rs.tmp", "templates/statics.rs.tmp", "templates/template_page_html.rs.tmp", "templates/template_index_html.rs.tmp", "templates/mod.rs.tmp", "templates/template_page_html.rs~", "templates/.template_page_html.rs.swp"]);
                let garbage: Vec<u8> = match r.below(5) {
                    0 => vec![],
                    1 => b"pub mod templates {\n".to_vec(),
                    2 => vec![0xff, 0xfe, 0x00],
                    3 => std::iter::repeat(&b"// residue of a build that died while writing this file\n"[..]).take(200).flatten().copied().collect(),
                    _ => b"garbage from an earlier crash".to_vec(),
                };
                steps.push(Step::OutWrite(target.into(), garbage));
            }
            8 => {
                // truncate an existing output: handled at run time (needs the current content)
                steps.push(Step::OutWrite("@truncate".into(), vec![r.next() as u8]));
            }
            9 => {
                // an existing output with its lines in another order (same length, same lines): what an earlier
                // run in another read_dir order leaves in mod.rs, or residue of any kind in any file
                steps.push(Step::OutWrite("@permute".into(), vec![r.next() as u8]));
            }
            _ => {
                // an edit that only exchanges lines of a template: parameters and the lines that use them
                let name = format!("templates/{}.rs.html", r.pick(STEMS));
                let (a, b) = if r.chance(1, 2) { ("title", "author") } else { ("author", "title") };
                steps.push(Step::Write(name.clone(), format!("@({a}: &str, {b}: &str)\n<h1>@{a}</h1>\n<h2>@{b}</h2>\n").into_bytes()));
                steps.push(Step::Run);
                steps.push(Step::Write(name, format!("@({b}: &str, {a}: &str)\n<h2>@{b}</h2>\n<h1>@{a}</h1>\n").into_bytes()));
            }
        }
        steps.push(Step::Run);
        if r.chance(1, 2) {
            steps.push(Step::Run); // a run with unchanged inputs must rewrite nothing
        }
    }
    Scenario { kind: "history", steps, script, twin: 0 }
}

pub fn scenarios(args: &crate::Args) -> Vec<Scenario> {
    let mut out = Vec::new();
    let want = |k: &str| args.mix == "all" || args.mix.split(',').any(|m| m == k);
    let mut twin = 0;
    if want("statics") {
        let mut r = Rng::new(args.seed, "script-statics");
        for _ in 0..args.n {
            twin += 1;
            let s = statics_scenario(&mut r, twin);
            if r.chance(1, 3) {
                let t = shuffled_twin(&mut r, &s);
                out.push(s);
                out.push(t);
            } else {
                out.push(s);
            }
        }
    }
    if want("statics") || want("names") {
        let mut r = Rng::new(args.seed, "script-names");
        for _ in 0..(args.n / 4).max(2) {
            out.push(names_scenario(&mut r));
        }
    }
    if want("tree") {
        let mut r = Rng::new(args.seed, "script-tree");
        for _ in 0..args.n {
            twin += 1;
            let s = tree_scenario(&mut r, twin, true);
            if r.chance(1, 2) {
                let t = shuffled_twin(&mut r, &s);
                out.push(s);
                out.push(t);
            } else {
                out.push(s);
            }
        }
    }
    if want("tree") {
        let mut r = Rng::new(args.seed, "script-dead");
        for _ in 0..(args.n / 8).max(4) {
            out.push(dead_scenario(&mut r));
        }
    }
    if args.mix.split(',').any(|m| m == "sassimports") {
        let mut r = Rng::new(args.seed, "script-sass");
        for _ in 0..args.n {
            out.push(sass_scenario(&mut r));
        }
    }
    if want("history") {
        let mut r = Rng::new(args.seed, "script-history");
        for _ in 0..args.n {
            out.push(history_scenario(&mut r));
        }
    }
    out
}

// ------------------------------------------------------------------------------------ oracles
/// lexical normalisation (`a/b/../c` = `a/c`): cargo stats the path, so both spellings name one file
pub fn lexical(path: &str) -> String {
    let mut out: Vec<&str> = Vec::new();
    for (ci, c) in path.split('/').enumerate() {
        match c {
            "." => {}
            "" if ci > 0 => {} // `a//b`, `a/b/`
            ".." if out.last().map_or(false, |l| !l.is_empty() && *l != "..") => {
                out.pop();
            }
            _ => out.push(c),
        }
    }
    out.join("/")
}

pub fn covered(path: &str, lines: &BTreeSet<String>) -> bool {
    let lines: BTreeSet<String> = lines.iter().map(|l| lexical(l)).collect();
    let lines = &lines;
    let path = lexical(path);
    let mut p = Path::new(&path);
    loop {
        if lines.contains(&p.display().to_string()) {
            return true;
        }
        match p.parent() {
            Some(q) if q != p && !q.as_os_str().is_empty() => p = q,
            _ => return false,
        }
    }
}

pub fn run(args: &crate::Args) {
    let exe = std::env::current_exe().unwrap();
    let dir = &args.out;
    let scs = scenarios(args);
    let mut req = std::io::BufWriter::new(std::fs::File::create(format!("{dir}/req.txt")).unwrap());
    let mut imp = std::io::BufWriter::new(std::fs::File::create(format!("{dir}/impl.txt")).unwrap());
    let mut orc = std::io::BufWriter::new(std::fs::File::create(format!("{dir}/oracle.jsonl")).unwrap());
    let mut meta = std::io::BufWriter::new(std::fs::File::create(format!("{dir}/scenarios.jsonl")).unwrap());
    let mut stats = Counter::new();
    let repo = std::env::var("VERIF_REPO").unwrap_or_else(|_| "/repo".into());
    let utils = std::fs::read(format!("{repo}/src/templates/utils.rs")).unwrap_or_default();
    writeln!(req, "setutils {}", hex(&utils)).unwrap();
    writeln!(imp, "ok").unwrap();
    // C18: the code generated for (function name, template bytes) must be the same everywhere
    let mut generated: BTreeMap<(String, Vec<u8>), (Vec<u8>, String)> = BTreeMap::new();
    // C18: twins must agree
    let mut twin_out: BTreeMap<usize, (BTreeMap<String, Vec<u8>>, String)> = BTreeMap::new();
    let mut distinct = BTreeSet::new();
    for (si, sc) in scs.iter().enumerate() {
        stats.hit(&format!("kind.{}", sc.kind));
        // vary the location: tmpfs (read_dir = reverse creation order) and, now and then, the disk
        let base = if si % 7 == 3 { "/var/tmp" } else { "/dev/shm" };
        let root = PathBuf::from(format!("{base}/ructe-verif-sc.{}.{si}", std::process::id()));
        let _ = std::fs::remove_dir_all(&root);
        std::fs::create_dir_all(root.join("in")).unwrap();
        let outdir = root.join("out");
        std::fs::create_dir_all(&outdir).unwrap();
        let mut k = 0;
        let mut prev_was_run = false;
        let mut fail = |tags: &str, kind: &str, detail: String, orc: &mut std::io::BufWriter<std::fs::File>| {
            writeln!(
                orc,
                "{{\"tags\":{tags},\"kind\":{},\"case\":{si},\"scenario\":{},\"detail\":{}}}",
                jstr(kind),
                jstr(&format!("{:?} script {:?}", sc.steps, sc.script).chars().take(3000).collect::<String>()),
                jstr(&detail)
            )
            .unwrap();
        };
        for st in &sc.steps {
            match st {
                Step::Run => {
                    let spell = if sc.twin != 0 { sc.twin } else { si };
                    let res = run_once(&exe, &root, &outdir, &sc.script, k, spell);
                    k += 1;
                    stats.hit("runs");
                    writeln!(req, "{}", res.req).unwrap();
                    writeln!(imp, "{}", res.answer).unwrap();
                    distinct.insert(res.answer.len() as u64 * 1_000_003 + res.stdout.len() as u64);
                    for l in &res.stdout {
                        if l.starts_with("HARNESS-ERROR") {
                            stats.hit("api.errors");
                        }
                    }
                    // ---- C12: a run directly after a run (inputs unchanged) rewrites nothing
                    if prev_was_run && !res.writes.is_empty() {
                        fail("[\"C12\"]", "second-run-writes", format!("inputs unchanged but rewritten: {:?}", res.writes), &mut orc);
                    }
                    // ---- C12: equals a clean build on every file the clean build produces
                    let clean_root = PathBuf::from(format!("{}-clean", root.display()));
                    let _ = std::fs::remove_dir_all(&clean_root);
                    std::fs::create_dir_all(clean_root.join("out")).unwrap();
                    // same inputs (same absolute paths): only OUT_DIR differs
                    let clean = run_once(&exe, &root, &clean_root.join("out"), &sc.script, 1000 + k, spell);
                    stats.hit("clean.compared");
                    for (p, c) in &clean.after {
                        let q = p.replacen(&clean_root.join("out").display().to_string(), &outdir.display().to_string(), 1);
                        match res.after.get(&q) {
                            Some(d) if d == c => {}
                            // what differs says which other promises are broken too: an index file = the module tree
                            // (C10), a template's file = the generated function is not the one its template describes
                            Some(_) if q.ends_with("/mod.rs") || q.ends_with("/templates.rs") => fail("[\"C12\",\"C18\",\"C10\"]", "incremental-differs", format!("{q} differs from a clean build"), &mut orc),
                            Some(_) if q.rsplit('/').next().map_or(false, |f| f.starts_with("template_")) => fail("[\"C12\",\"C18\",\"C01\",\"C03\",\"C04\",\"C13\"]", "incremental-differs", format!("{q} differs from a clean build"), &mut orc),
                            Some(_) => fail("[\"C12\",\"C18\"]", "incremental-differs", format!("{q} differs from a clean build"), &mut orc),
                            None => fail("[\"C12\"]", "incremental-missing", format!("{q} missing, present in a clean build"), &mut orc),
                        }
                    }
                    // the index of a clean build is there iff the index of this run is (a run that writes no
                    // templates.rs leaves the one of an earlier build in place)
                    for idx in ["templates.rs"] {
                        let a = res.after.contains_key(&outdir.join(idx).display().to_string());
                        let b = clean.after.contains_key(&clean_root.join("out").join(idx).display().to_string());
                        if a != b {
                            fail("[\"C12\",\"C10\"]", "index-presence-differs", format!("{idx}: present after this run: {a}, after a clean build: {b}"), &mut orc);
                        }
                    }
                    // no declaration without its file (whatever the script looks like): every `mod template_x;` and
                    // `pub mod d;` of every index a clean build writes has the file it names
                    for (p, c) in &clean.after {
                        if !(p.ends_with("/mod.rs") || p.ends_with("/templates.rs")) {
                            continue;
                        }
                        let dir = if p.ends_with("/templates.rs") { format!("{}/templates", &p[..p.len() - "/templates.rs".len()]) } else { p[..p.len() - "/mod.rs".len()].to_string() };
                        for l in String::from_utf8_lossy(c).lines() {
                            let l = l.trim();
                            let target = if let Some(m) = l.strip_prefix("mod template_").and_then(|x| x.strip_suffix(';')) {
                                Some(format!("{dir}/template_{m}.rs"))
                            } else if let Some(m) = l.strip_prefix("pub mod ").and_then(|x| x.strip_suffix(';')) {
                                if m == "statics" { Some(format!("{dir}/statics.rs")) } else { Some(format!("{dir}/{m}/mod.rs")) }
                            } else {
                                None
                            };
                            if let Some(t) = target {
                                stats.hit("declarations.checked");
                                if !clean.after.contains_key(&t) {
                                    fail("[\"C10\",\"C04\"]", "declaration-without-file", format!("{p} declares `{l}` but {t} does not exist after the run"), &mut orc);
                                }
                            }
                        }
                    }
                    if clean.stdout != res.stdout {
                        fail("[\"C12\",\"C17\",\"C10\"]", "stdout-differs-from-clean", format!("{:?} vs clean {:?}", res.stdout, clean.stdout), &mut orc);
                    }
                    // ---- C17: every input is covered by a rerun-if-changed line
                    let lines: BTreeSet<String> = res.stdout.iter().filter_map(|l| l.strip_prefix("cargo:rerun-if-changed=").map(|s| s.to_string())).collect();
                    for (p, _is_dir) in &res.inputs {
                        stats.hit("inputs.checked");
                        if !covered(p, &lines) {
                            fail("[\"C17\"]", "input-not-announced", format!("{p} influenced the output but no cargo:rerun-if-changed line covers it; lines: {lines:?}"), &mut orc);
                        }
                    }
                    // ---- C10 / C18 on the clean build: exactly the expected files, each the compiled template
                    check_tree(&root, &clean_root.join("out"), sc, &clean, &mut generated, &mut |t, kd, d| fail(t, kd, d, &mut orc), &mut stats);
                    // ---- C18: twins
                    // (the first run of a scenario only: later runs follow edits that are not part of the shared tree)
                    if sc.twin != 0 && k == 1 && (sc.kind == "tree" || sc.kind == "twin" || sc.kind == "statics") {
                        let norm: BTreeMap<String, Vec<u8>> = clean
                            .after
                            .iter()
                            .map(|(p, c)| (p.replacen(&clean_root.display().to_string(), "", 1), normalise(c, &root.display().to_string())))
                            .collect();
                        let key = sc.twin;
                        if let Some((other, who)) = twin_out.get(&key) {
                            stats.hit("twins.compared");
                            compare_twins(other, &norm, who, &mut |t, kd, d| fail(t, kd, d, &mut orc));
                        } else {
                            twin_out.insert(key, (norm, format!("scenario {si}")));
                        }
                    }
                    let _ = std::fs::remove_dir_all(&clean_root);
                    // metadata for the python-side oracles (hash recomputation, e2e compile)
                    writeln!(
                        meta,
                        "{{\"case\":{si},\"run\":{},\"kind\":{},\"root\":{},\"out\":{},\"names\":[{}]}}",
                        k - 1,
                        jstr(sc.kind),
                        jstr(&root.display().to_string()),
                        jstr(&outdir.display().to_string()),
                        res.names.iter().map(|(a, b)| format!("[{},{}]", jstr(a), jstr(b))).collect::<Vec<_>>().join(",")
                    )
                    .unwrap();
                    prev_was_run = true;
                }
                Step::OutWrite(rel, c) if rel == "@truncate" => {
                    // cut an existing output file at 0 / mid / len-1
                    let snap = snapshot(&outdir);
                    let files: Vec<&String> = snap.keys().collect();
                    if !files.is_empty() {
                        let p = files[c[0] as usize % files.len()];
                        let content = &snap[p];
                        let cut = match c[0] % 3 {
                            0 => 0,
                            1 => content.len() / 2,
                            _ => content.len().saturating_sub(1),
                        };
                        let _ = std::fs::write(p, &content[..cut]);
                        stats.hit("truncations");
                    }
                    prev_was_run = false;
                }
                Step::OutWrite(rel, c) if rel == "@permute" => {
                    let snap = snapshot(&outdir);
                    let cands: Vec<(&String, Vec<&[u8]>)> = snap
                        .iter()
                        .map(|(p, c)| (p, c.split_inclusive(|b| *b == b'\n').collect::<Vec<&[u8]>>()))
                        .filter(|(_, l)| l.len() >= 3 && l.last().map_or(false, |x| x.ends_with(b"\n")))
                        .collect();
                    if !cands.is_empty() {
                        let (p, lines) = &cands[c[0] as usize % cands.len()];
                        let mut l: Vec<&[u8]> = lines.clone();
                        match c[0] % 3 {
                            0 => l.rotate_left(1),
                            1 => l.reverse(),
                            _ => {
                                let n = l.len();
                                l.swap(n / 2, n / 2 - 1)
                            }
                        }
                        let _ = std::fs::write(p, l.concat());
                        stats.hit("permutations");
                    }
                    prev_was_run = false;
                }
                other => {
                    apply(&root, &outdir, other);
                    prev_was_run = false;
                }
            }
        }
        if args.rest.iter().any(|a| a == "--keep") {
            // kept for the e2e stage; the orchestrator removes them
        } else {
            let _ = std::fs::remove_dir_all(&root);
        }
    }
    stats.add("cases", scs.len() as u64);
    stats.add("distinct.run_outputs", distinct.len() as u64);
    std::fs::write(format!("{dir}/stats.json"), stats.json()).unwrap();
}

fn normalise(c: &[u8], root: &str) -> Vec<u8> {
    // statics.rs mentions absolute input paths: make locations comparable
    String::from_utf8_lossy(c).replace(root, "<ROOT>").into_bytes()
}

fn decl_blocks(c: &[u8]) -> Vec<String> {
    // the set of declaration lines (the order of declarations follows read_dir order)
    let mut v: Vec<String> = String::from_utf8_lossy(c).lines().map(|s| s.to_string()).collect();
    v.sort();
    v
}

fn compare_twins(a: &BTreeMap<String, Vec<u8>>, b: &BTreeMap<String, Vec<u8>>, who: &str, fail: &mut dyn FnMut(&str, &str, String)) {
    if a.keys().collect::<Vec<_>>() != b.keys().collect::<Vec<_>>() {
        fail("[\"C18\"]", "twin-file-set", format!("same tree in another creation order ({who}) produced a different file set: {:?} vs {:?}", a.keys(), b.keys()));
        return;
    }
    for (p, c) in a {
        let d = &b[p];
        if p.ends_with("mod.rs") || p.ends_with("templates.rs") {
            if decl_blocks(c) != decl_blocks(d) {
                fail("[\"C18\"]", "twin-declarations", format!("{p}: declaration sets differ between creation orders ({who})"));
            }
        } else if p.ends_with("statics.rs") {
            // item order follows insertion order; the STATICS line must be identical
            let la = String::from_utf8_lossy(c);
            let lb = String::from_utf8_lossy(d);
            let sa = la.lines().find(|l| l.starts_with("pub static STATICS"));
            let sb = lb.lines().find(|l| l.starts_with("pub static STATICS"));
            if sa != sb {
                fail("[\"C18\",\"C09\"]", "twin-statics-order", format!("STATICS differs between insertion orders ({who}): {sa:?} vs {sb:?}"));
            }
        } else if c != d {
            fail("[\"C18\"]", "twin-content", format!("{p}: generated code differs between creation orders / locations ({who})"));
        }
    }
}

#[allow(clippy::too_many_arguments)]
fn check_tree(
    root: &Path,
    out: &Path,
    sc: &Scenario,
    clean: &RunResult,
    generated: &mut BTreeMap<(String, Vec<u8>), (Vec<u8>, String)>,
    fail: &mut dyn FnMut(&str, &str, String),
    stats: &mut Counter,
) {
    // only for scripts whose template calls are exactly one compile_templates("templates") — plus, possibly, calls on
    // directories that do not exist (they fail and must change nothing)
    if sc.kind == "dead" {
        return;
    }
    let real: Vec<&String> = sc.script.iter().filter_map(|o| if let SOp::T(d) = o { Some(d) } else { None }).filter(|d| root.join("in").join(d).is_dir()).collect();
    if real.len() != 1 || real[0] != "templates" {
        return;
    }
    let tdir = root.join("in/templates");
    let mut expected: BTreeMap<String, Vec<u8>> = BTreeMap::new();
    let mut decls: Vec<(String, String, bool)> = Vec::new(); // (file holding the declaration, needle, must be present)
    fn walk(
        d: &Path,
        outd: &Path,
        parent_decl_file: &Path,
        expected: &mut BTreeMap<String, Vec<u8>>,
        decls: &mut Vec<(String, String, bool)>,
        warnings: &mut Vec<(String, bool)>,
    ) {
        let Ok(rd) = std::fs::read_dir(d) else { return };
        for e in rd.flatten() {
            let p = e.path();
            let name = e.file_name().to_string_lossy().into_owned();
            if p.is_dir() {
                let od = outd.join(&name);
                decls.push((parent_decl_file.display().to_string(), format!("pub mod {name};"), true));
                walk(&p, &od, &od.join("mod.rs"), expected, decls, warnings);
                expected.entry(od.join("mod.rs").display().to_string()).or_default();
            } else {
                for suf in [".rs.html", ".rs.svg", ".rs.xml"] {
                    if let Some(stem) = name.strip_suffix(suf) {
                        let fname = format!("{stem}_{}", &suf[4..]);
                        let content = std::fs::read(&p).unwrap_or_default();
                        // (a panic while the errors of a broken template are printed kills the build script, and with it
                        // every other template; here it must not kill the judge: the template counts as broken, and the
                        // consequences show in the oracles below)
                        let compiled = std::panic::catch_unwind(|| ructe::verif_hooks::compile(&fname, &content)).unwrap_or_else(|_| Err("panicked".into()));
                        match compiled {
                            Ok(code) => {
                                expected.insert(outd.join(format!("template_{fname}.rs")).display().to_string(), code.into_bytes());
                                decls.push((parent_decl_file.display().to_string(), format!("mod template_{fname};"), true));
                                decls.push((parent_decl_file.display().to_string(), format!("pub use self::template_{fname}::{fname};"), true));
                                warnings.push((p.display().to_string(), false));
                            }
                            Err(_) => {
                                decls.push((parent_decl_file.display().to_string(), format!("mod template_{fname};"), false));
                                warnings.push((p.display().to_string(), true));
                            }
                        }
                    }
                }
                if !is_template(&name) {
                    // a file with another name produces nothing: no code, no declaration, no output at all
                    warnings.push((format!("\u{0}{}", p.display()), false));
                }
            }
        }
    }
    let tout = out.join("templates");
    let mut warnings = Vec::new();
    walk(&tdir, &tout, &out.join("templates.rs"), &mut expected, &mut decls, &mut warnings);
    stats.add("tree.templates", warnings.len() as u64);
    for (p, c) in &expected {
        if p.ends_with("mod.rs") {
            if !clean.after.contains_key(p) {
                fail("[\"C10\"]", "module-file-missing", format!("{p} was not written"));
            }
            continue;
        }
        match clean.after.get(p) {
            None => fail("[\"C10\",\"C11\"]", "template-file-missing", format!("{p} was not written for a template that parses")),
            Some(d) if d != c => fail("[\"C10\",\"C18\",\"C11\",\"C01\"]", "template-file-content", format!("{p} is not the code generated for that template alone")),
            _ => {}
        }
        // C18: same (name, bytes) => same code, wherever and whenever it is compiled
        let fname = Path::new(p).file_name().unwrap().to_string_lossy().into_owned();
        let _ = fname;
    }
    for (p, c) in &clean.after {
        let is_fixed = p.ends_with("/templates.rs") || p.ends_with("/_utils.rs") || p.ends_with("/statics.rs");
        if !is_fixed && !expected.contains_key(p) {
            fail("[\"C10\"]", "unexpected-output-file", format!("{p} was written but no template / directory corresponds to it"));
        }
        let _ = c;
    }
    for (file, needle, present) in &decls {
        let text = clean.after.get(file).map(|c| String::from_utf8_lossy(c).into_owned()).unwrap_or_default();
        let has = text.lines().any(|l| l.trim() == needle);
        if has != *present {
            fail(
                "[\"C10\",\"C04\"]",
                if *present { "declaration-missing" } else { "declaration-for-broken-template" },
                format!("{file}: `{needle}` {}", if *present { "missing" } else { "present although the template does not parse" }),
            );
        }
    }
    // every declaration line occurs once per module file
    for (p, c) in &clean.after {
        if p.ends_with("/mod.rs") || p.ends_with("/templates.rs") {
            let text = String::from_utf8_lossy(c);
            let mut seen = BTreeSet::new();
            for l in text.lines().map(|l| l.trim()).filter(|l| l.starts_with("mod template_") || l.starts_with("pub mod ") || l.starts_with("pub use self::template_")) {
                if !seen.insert(l.to_string()) && l != "pub mod templates {" {
                    fail("[\"C10\"]", "declaration-duplicated", format!("{p}: `{l}` is declared twice"));
                }
            }
        }
    }
    for (path, broken) in &warnings {
        if let Some(other) = path.strip_prefix('\u{0}') {
            // a non-template file: no line of the output may name it (its directory may be a prefix of
            // other paths, so compare the whole path followed by a non-path character or the end)
            let named = clean.stdout.iter().any(|l| {
                l.match_indices(other).any(|(i, _)| {
                    let rest = &l[i + other.len()..];
                    rest.is_empty() || !rest.starts_with(|c: char| c.is_alphanumeric() || "._-~/".contains(c))
                })
            });
            if named {
                fail("[\"C10\"]", "other-file-mentioned", format!("the output names {other}, which is not a template"));
            }
            continue;
        }
        let warned = clean.stdout.iter().any(|l| l.starts_with("cargo:warning=") && l.contains(path.as_str()));
        if *broken && !warned {
            fail("[\"C10\",\"C11\"]", "broken-template-not-reported", format!("no cargo:warning names {path}"));
        }
        if !*broken && warned {
            fail("[\"C10\"]", "valid-template-warned", format!("a cargo:warning names the valid template {path}"));
        }
    }
    // C18, independent of how output files are named: what a template yields when compiled ALONE (a
    // directory holding nothing but that file, another OUT_DIR) must be among the files of the full run
    {
        let full: BTreeSet<&Vec<u8>> = clean.after.iter().filter(|(p, _)| Path::new(p).file_name().map_or(false, |f| f.to_string_lossy().starts_with("template_"))).map(|(_, c)| c).collect();
        let mut all_tpl: Vec<PathBuf> = Vec::new();
        fn collect(d: &Path, v: &mut Vec<PathBuf>) {
            let Ok(rd) = std::fs::read_dir(d) else { return };
            for e in rd.flatten() {
                let p = e.path();
                if p.is_dir() {
                    collect(&p, v);
                } else if is_template(&e.file_name().to_string_lossy()) {
                    v.push(p);
                }
            }
        }
        collect(&tdir, &mut all_tpl);
        all_tpl.sort();
        for (k, tp) in all_tpl.iter().enumerate().take(4) {
            let solo_in = root.join(format!("solo{k}/in"));
            let solo_out = root.join(format!("solo{k}/out"));
            let _ = std::fs::create_dir_all(&solo_in);
            let _ = std::fs::create_dir_all(&solo_out);
            let _ = std::fs::copy(tp, solo_in.join(tp.file_name().unwrap()));
            let ran = std::panic::catch_unwind(|| match ructe::Ructe::new(solo_out.clone()) {
                Ok(mut rr) => rr.compile_templates(&solo_in).is_ok(),
                Err(_) => false,
            });
            if ran.is_err() {
                // compiling this one template panics: in a build script every other template dies with it
                fail(
                    "[\"C10\",\"C11\"]",
                    "compile-templates-panicked",
                    format!("compile_templates on a directory holding just {} panics instead of reporting and skipping it", tp.display()),
                );
            }
            let ok = ran.unwrap_or(false);
            if ok {
                stats.hit("tree.solo_runs");
                for (sp, sc_) in snapshot(&solo_out) {
                    let f = Path::new(&sp).file_name().unwrap().to_string_lossy().into_owned();
                    if f.starts_with("template_") && !full.contains(&sc_) {
                        fail(
                            "[\"C18\"]",
                            "alone-differs-from-among-siblings",
                            format!("{} compiled alone gives {f} with bytes that no template_* file of the full run has", tp.display()),
                        );
                    }
                }
            }
            let _ = std::fs::remove_dir_all(root.join(format!("solo{k}")));
        }
    }
    // C18 across scenarios
    for (p, c) in &expected {
        if p.ends_with("mod.rs") {
            continue;
        }
        if let Some(actual) = clean.after.get(p) {
            let fname = Path::new(p).file_name().unwrap().to_string_lossy().into_owned();
            let key = (fname, c.clone());
            match generated.get(&key) {
                Some((prev, wher)) if prev != actual => fail("[\"C18\"]", "same-template-different-code", format!("{p} differs from the code generated for the same template in {wher}")),
                Some(_) => {}
                None => {
                    generated.insert(key, (actual.clone(), p.clone()));
                }
            }
        }
    }
}
