//! Suite `e2e`: typed, generated template *programs* (acyclic call graphs across modules,
//! Content blocks) are compiled by the real ructe, built with rustc and run against a perfect
//! sink and against fault-injecting sinks.  The Lean driver renders the same program with the
//! specification semantics; the fault oracles (prefix, error propagation, no write after a
//! failure) are evaluated inside the generated `main.rs`.
use crate::gen::{self, Arg, Cond, Else, Layout, Node, Pat};
use crate::util::*;
use std::io::Write;
use std::path::{Path, PathBuf};

#[derive(Clone, Copy, PartialEq, Debug)]
pub enum Ty {
    Str,
    I32,
    Bool,
    ListI32,
    ListStr,
    ListPair,
    OptStr,
    OptI32,
    ListPt,
    /// display only (references produced by loops / patterns)
    Disp,
    /// an owned, non-`Copy` value (`String`): displayed by reference, handed on as `own.clone()`;
    /// a block that captures it must borrow it, not move it
    Owned,
    /// an owned `String` that the template uses at most once, **by value**, inside a block argument that is
    /// not in a loop: the closure ructe builds for the block must be allowed to consume what it captures
    Gift,
}

const GLOBALS: &[(&str, Ty, &str)] = &[
    ("s", Ty::Str, "&str"),
    ("t", Ty::Str, "&str"),
    ("n", Ty::I32, "i32"),
    ("m", Ty::I32, "i32"),
    ("b", Ty::Bool, "bool"),
    ("c", Ty::Bool, "bool"),
    ("xs", Ty::ListI32, "&[i32]"),
    ("ws", Ty::ListStr, "&[&str]"),
    ("ps", Ty::ListPair, "&[(i32, &str)]"),
    ("o", Ty::OptStr, "Option<&str>"),
    ("q", Ty::OptI32, "Option<i32>"),
    ("pts", Ty::ListPt, "&[Pt]"),
    ("own", Ty::Owned, "String"),
    ("gift", Ty::Gift, "String"),
];

#[derive(Clone)]
pub struct TplDef {
    pub name: String,
    pub dir: Vec<String>,
    pub ext: &'static str,
    /// declared parameters in declared order: (name, type text, is content)
    pub params: Vec<(String, String, bool)>,
    pub uses: Vec<String>,
    pub body: Vec<Node>,
}

impl TplDef {
    pub fn fn_name(&self) -> String {
        format!("{}_{}", self.name, self.ext)
    }
    pub fn source(&self, r: Option<&mut Rng>) -> Vec<u8> {
        let t = gen::Tpl {
            uses: self.uses.clone(),
            lifetimes: vec![],
            params: self.params.iter().map(|(n, t, _)| (n.clone(), t.clone())).collect(),
            body: self.body.clone(),
        };
        match r {
            Some(r) => gen::print_tpl(&t, &mut Layout::Random(r)),
            None => gen::print_tpl(&t, &mut Layout::Canonical),
        }
    }
}

pub struct Program {
    pub id: usize,
    pub tpls: Vec<TplDef>,
}

struct Scope {
    vars: Vec<(String, Ty)>,
    content: Vec<String>,
    in_loop: bool,
    /// the by-value use of `gift` has been generated (or must not be: a later use would be a use after move)
    gift_used: bool,
}

impl Scope {
    /// the visible bindings: the innermost binding of a name shadows outer ones
    fn visible(&self) -> Vec<(&str, Ty)> {
        let mut seen = std::collections::BTreeSet::new();
        self.vars.iter().filter(|(n, _)| seen.insert(n.as_str())).map(|(n, t)| (n.as_str(), *t)).collect()
    }
    fn of(&self, ty: Ty) -> Vec<&str> {
        self.visible().into_iter().filter(|(_, t)| *t == ty).map(|(n, _)| n).collect()
    }
    fn displayable(&self) -> Vec<&str> {
        self.visible().into_iter().filter(|(_, t)| matches!(t, Ty::Str | Ty::I32 | Ty::Bool | Ty::Disp | Ty::Owned)).map(|(n, _)| n).collect()
    }
}

fn gen_cond(r: &mut Rng, sc: &Scope) -> (Cond, Vec<(String, Ty)>) {
    let ints = sc.of(Ty::I32);
    let strs = sc.of(Ty::Str);
    let bools = sc.of(Ty::Bool);
    let lit = |s: &str| Cond::Logic { neg: false, first: s.to_string(), rest: vec![] };
    match r.below(10) {
        0 => (Cond::Let("Some(v)".into(), "o".into()), vec![("v".into(), Ty::Disp)]),
        1 => (Cond::Let("Some(k)".into(), "q".into()), vec![("k".into(), Ty::I32)]),
        2 => (Cond::Logic { neg: r.chance(1, 2), first: r.pick(&bools).to_string(), rest: vec![] }, vec![]),
        3 => (
            Cond::Logic { neg: r.chance(1, 3), first: r.pick(&bools).to_string(), rest: vec![(r.pick(&["&&", "||"]).to_string(), r.pick(&bools).to_string())] },
            vec![],
        ),
        4 => (
            Cond::Logic { neg: false, first: r.pick(&strs).to_string(), rest: vec![(r.pick(&["==", "!="]).to_string(), r.pick(&["\"x\"", "\"\"", "\"a<b\"", "t", "s"]).to_string())] },
            vec![],
        ),
        5 => (lit(&format!("{}.len() {} {}", r.pick(&["xs", "ws", "ps", "s"]), r.pick(&[">", "==", "<", ">=", "<=", "!="]), r.below(3))), vec![]),
        _ => {
            let a = r.pick(&ints).to_string();
            let b = if r.chance(1, 2) { r.pick(&ints).to_string() } else { r.below(4).to_string() };
            (Cond::Logic { neg: false, first: a, rest: vec![(r.pick(&["==", "!=", "<", "<=", ">", ">="]).to_string(), b)] }, vec![])
        }
    }
}

fn with_vars<T>(sc: &mut Scope, extra: Vec<(String, Ty)>, f: impl FnOnce(&mut Scope) -> T) -> T {
    let n = sc.vars.len();
    // innermost binding first (shadowing)
    for v in extra {
        sc.vars.insert(0, v);
    }
    let added = sc.vars.len() - n;
    let out = f(sc);
    for _ in 0..added {
        sc.vars.remove(0);
    }
    out
}

fn gen_body(r: &mut Rng, sc: &mut Scope, depth: usize, budget: &mut usize, callees: &[TplDef]) -> Vec<Node> {
    let n = r.range(0, 4);
    let mut out: Vec<Node> = Vec::new();
    for _ in 0..n {
        if *budget == 0 {
            break;
        }
        *budget -= 1;
        let after_expr = matches!(out.last(), Some(Node::Expr(_)));
        let after_text = matches!(out.last(), Some(Node::Text(_)));
        let k = r.below(if depth == 0 { 8 } else { 14 });
        let node = match k {
            0 | 1 => {
                if after_text {
                    continue;
                }
                let mut t = if after_expr { gen::text_after_expr(r) } else { gen::rand_text(r) };
                // keep rustc's view simple: no NUL-free restriction needed, bytes are emitted escaped
                if t.is_empty() {
                    t.push(b'.');
                }
                Node::Text(t)
            }
            2 => match r.below(3) {
                0 => Node::EscAt,
                1 => Node::EscOpen,
                _ => Node::EscClose,
            },
            3 => Node::Comment(b" c ".to_vec()),
            4 | 5 => {
                let d = sc.displayable();
                match r.below(6) {
                    0 => Node::Expr(format!("{}.len()", r.pick(&["xs", "ws", "ps", "s"]))),
                    // string literals as expressions, also with escapes that *denote* a special character: the value, not
                    // the source text, is what gets escaped
                    1 => Node::Expr(r.pick(&["\"lit<&>\"", "42", "\"q\\\"uote\"", "\"\"", "\"Tom \\x26 Jerry\"", "\"1 \\u{3c} 2\"", "\"\\x22q\\x27\"", "\"a\\u{3E}b\\tc\""]).to_string()),
                    _ => Node::Expr(r.pick(&d).to_string()),
                }
            }
            6 => {
                let ints = sc.of(Ty::I32);
                Node::Paren(format!("{} {} {}", r.pick(&ints), r.pick(&["+", "-"]), r.pick(&ints)))
            }
            7 => {
                let strs = sc.of(Ty::Str);
                Node::Expr(format!("Html({})", if r.chance(1, 3) { "\"<i>raw</i>\"".to_string() } else { r.pick(&strs).to_string() }))
            }
            8 | 9 => {
                let (cond, binds) = gen_cond(r, sc);
                let sole_nested = r.chance(1, 4);
                let body = with_vars(sc, binds, |sc| {
                    if sole_nested {
                        // the body is exactly one nested `@if` (no surrounding text)
                        let (c2, b2) = gen_cond(r, sc);
                        let inner = with_vars(sc, b2, |sc| gen_body(r, sc, depth - 1, budget, callees));
                        let e2 = if r.chance(1, 3) { gen_else(r, sc, depth - 1, budget, callees) } else { Else::None };
                        vec![Node::If { cond: c2, body: inner, els: e2 }]
                    } else {
                        gen_body(r, sc, depth - 1, budget, callees)
                    }
                });
                let els = gen_else(r, sc, depth - 1, budget, callees);
                Node::If { cond, body, els }
            }
            10 => {
                let (pat, iter, binds): (Pat, String, Vec<(String, Ty)>) = match r.below(8) {
                    0 => (Pat::Name("x".into()), "xs".into(), vec![("x".into(), Ty::Disp)]),
                    1 => (Pat::Name("w".into()), "ws".into(), vec![("w".into(), Ty::Disp)]),
                    2 => (Pat::Tuple { amp: false, items: vec!["k".into(), "v".into()] }, "ps".into(), vec![("k".into(), Ty::Disp), ("v".into(), Ty::Disp)]),
                    3 => (Pat::Tuple { amp: true, items: vec!["k".into(), "v".into()] }, "ps".into(), vec![("k".into(), Ty::I32), ("v".into(), Ty::Disp)]),
                    4 => (Pat::Struct("Pt{x, y}".into()), "pts".into(), vec![("x".into(), Ty::Disp), ("y".into(), Ty::Disp)]),
                    5 => (Pat::Name("i".into()), format!("0..{}", r.pick(&["n", "m", "3", "0"])), vec![("i".into(), Ty::I32)]),
                    6 => (Pat::Name("i".into()), format!("1..={}", r.pick(&["n", "2", "m"])), vec![("i".into(), Ty::I32)]),
                    _ => (Pat::Tuple { amp: false, items: vec!["i".into(), "w".into()] }, "ws.iter().enumerate()".into(), vec![("i".into(), Ty::Disp), ("w".into(), Ty::Disp)]),
                };
                let was = sc.in_loop;
                sc.in_loop = true;
                let body = with_vars(sc, binds, |sc| gen_body(r, sc, depth - 1, budget, callees));
                sc.in_loop = was;
                Node::For { pat, iter, body }
            }
            11 => {
                let (expr, arms): (String, Vec<(String, Vec<(String, Ty)>)>) = match r.below(7) {
                    4 => (r.pick(&sc.of(Ty::I32)).to_string(), vec![(r.pick(&["0", "1", "7"]).to_string(), vec![]), (if r.chance(1, 2) { "k" } else { "_" }.to_string(), vec![("k".to_string(), Ty::I32)])]),
                    5 => ("o".into(), vec![(r.pick(&["None", "Some(v)"]).to_string(), vec![("v".to_string(), Ty::Disp)]), ("_".into(), vec![])]),
                    6 => (r.pick(&sc.of(Ty::Str)).to_string(), vec![(r.pick(&["\"a\"", "\"x\"", "\"\""]).to_string(), vec![]), (if r.chance(1, 2) { "other" } else { "_" }.to_string(), vec![("other".to_string(), Ty::Disp)])]),
                    0 => {
                        let mut a = vec![("Some(v)".to_string(), vec![("v".to_string(), Ty::Disp)]), ("None".to_string(), vec![])];
                        if r.chance(1, 2) {
                            a.swap(0, 1);
                        }
                        ("o".into(), a)
                    }
                    1 => (r.pick(&sc.of(Ty::I32)).to_string(), vec![("0".into(), vec![]), ("1".into(), vec![]), ("_".into(), vec![])]),
                    2 => ("q".into(), vec![("Some(0)".into(), vec![]), ("Some(k)".into(), vec![("k".into(), Ty::I32)]), ("None".into(), vec![])]),
                    _ => (r.pick(&sc.of(Ty::Str)).to_string(), vec![("\"a\"".into(), vec![]), ("\"\"".into(), vec![]), ("_".into(), vec![])]),
                };
                let mut out_arms = Vec::new();
                let narms = arms.len();
                // now and then exactly one arm has an empty body (first or last)
                let empty_at = if r.chance(1, 3) { Some(if r.chance(1, 2) { 0 } else { narms - 1 }) } else { None };
                for (ai, (p, binds)) in arms.into_iter().enumerate() {
                    // a binding that the pattern does not introduce must not be used
                    let binds: Vec<(String, Ty)> = binds.into_iter().filter(|(n, _)| p.contains(n.as_str())).collect();
                    let mut body = if empty_at == Some(ai) { vec![] } else { with_vars(sc, binds, |sc| gen_body(r, sc, depth - 1, budget, callees)) };
                    if empty_at.is_some() && empty_at != Some(ai) && body.is_empty() {
                        body.push(Node::Text(format!("<arm{ai}>").into_bytes()));
                    }
                    out_arms.push((p, body));
                }
                Node::Match { expr, arms: out_arms }
            }
            _ => {
                // a call: to a later template of the program, or to an available Content parameter
                if !sc.content.is_empty() && !sc.in_loop && r.chance(1, 2) {
                    let name = sc.content.remove(r.below(sc.content.len()));
                    Node::Call { name, args: vec![] }
                } else if !callees.is_empty() {
                    let ci = r.below(callees.len());
                    let callee = &callees[ci];
                    let mut args = Vec::new();
                    for (pn, _pt, is_content) in &callee.params {
                        if *is_content {
                            // a block: empty, comment only, or further directives and calls
                            let body = match r.below(7) {
                                0 => vec![],
                                1 => vec![Node::Comment(b" only a comment ".to_vec())],
                                2 => {
                                    // a block that is nothing but one directive whose first body is empty or
                                    // comment-only, with the content in its else branch
                                    let (cond, binds) = gen_cond(r, sc);
                                    let thn = if r.chance(1, 2) { vec![] } else { vec![Node::Comment(b" nothing ".to_vec())] };
                                    let _ = binds;
                                    let els = gen_body(r, sc, depth.saturating_sub(1), budget, &callees[ci + 1..]);
                                    vec![Node::If { cond, body: thn, els: Else::Block(if els.is_empty() { vec![Node::Text(b"else-part".to_vec())] } else { els }) }]
                                }
                                3 => {
                                    // only directives with empty bodies
                                    vec![Node::For { pat: Pat::Name("x".into()), iter: "xs".into(), body: vec![] }, Node::If { cond: gen_cond(r, sc).0, body: vec![], els: Else::None }]
                                }
                                _ => gen_body(r, sc, depth.saturating_sub(1), budget, &callees[ci + 1..]),
                            };
                            let mut body = body;
                            if !sc.in_loop && !sc.gift_used && ci + 1 < callees.len() && r.chance(1, 2) {
                                // the block hands an owned value on *by value* (`gift`, not `gift.clone()`): the closure
                                // built for the block consumes its capture, which a call-once closure may do
                                sc.gift_used = true;
                                let inner = &callees[ci + 1 + r.below(callees.len() - ci - 1)];
                                let mut a2 = Vec::new();
                                for (pn2, _pt2, is_content2) in &inner.params {
                                    if *is_content2 {
                                        a2.push(Arg::Body(vec![Node::Text(b"(given)".to_vec())]));
                                    } else if pn2 == "own" {
                                        a2.push(Arg::Rust("gift".to_string()));
                                    } else if pn2 == "gift" {
                                        a2.push(Arg::Rust("own.clone()".to_string()));
                                    } else {
                                        a2.push(Arg::Rust(pn2.to_string()));
                                    }
                                }
                                body.push(Node::Call { name: inner.fn_name(), args: a2 });
                            }
                            args.push(Arg::Body(body));
                        } else {
                            let ty = GLOBALS.iter().find(|g| g.0 == pn).map(|g| g.1).unwrap();
                            let cands = sc.of(ty);
                            if ty == Ty::Str && r.chance(1, 4) {
                                // a literal argument, possibly spanning several source lines: every byte
                                // between the quotes (line breaks, indentation, blank lines, tabs) is the value
                                let lits: &[&str] = &["\"lit\"", "\"Usage:\n    prog [options]\n\n      -v   <verbose>\"", "\"a  b\tc \"", "\"\"", "\" & \n\""];
                                args.push(Arg::Rust(r.pick(lits).to_string()));
                            } else if ty == Ty::Owned {
                                args.push(Arg::Rust(format!("{}.clone()", r.pick(&cands))));
                            } else if ty == Ty::Gift {
                                // never the caller's own `gift` (it may have been given away already)
                                args.push(Arg::Rust("own.clone()".to_string()));
                            } else {
                                args.push(Arg::Rust(r.pick(&cands).to_string()));
                            }
                        }
                    }
                    Node::Call { name: callee.fn_name(), args }
                } else {
                    continue;
                }
            }
        };
        let bare_if = gen::ends_without_else(&node);
        out.push(node);
        if bare_if && *budget > 0 && r.chance(1, 3) {
            // text that begins like an else branch but is none: rendered as it stands, leading white space included
            *budget -= 1;
            let t = *r.pick(&[" elsewhere", "\nelse-ish", " else.", "  elsewise", "\telse(x)", " else", " @* c *@ elsewhere"]);
            out.push(Node::Text(t.as_bytes().to_vec()));
        }
    }
    out
}

fn gen_else(r: &mut Rng, sc: &mut Scope, depth: usize, budget: &mut usize, callees: &[TplDef]) -> Else {
    match r.below(5) {
        0 | 1 => Else::None,
        2 | 3 => Else::Block(gen_body(r, sc, depth, budget, callees)),
        _ => {
            let (cond, binds) = gen_cond(r, sc);
            let body = with_vars(sc, binds, |sc| gen_body(r, sc, depth, budget, callees));
            let els = if depth > 0 { gen_else(r, sc, depth - 1, budget, callees) } else { Else::None };
            Else::ElseIf(Box::new(Node::If { cond, body, els }))
        }
    }
}

fn module_path(prog: usize, dir: &[String]) -> String {
    let mut s = format!("crate::templates::p{prog}");
    for d in dir {
        s.push_str("::");
        s.push_str(d);
    }
    s
}

pub fn gen_program(r: &mut Rng, id: usize, depth: usize) -> Program {
    let ntpl = r.range(1, 5);
    let dirs: &[&[&str]] = &[&[], &["sub"], &["sub", "deep"], &["other"]];
    let mut tpls: Vec<TplDef> = Vec::new();
    // build callees first (higher index), so that callers can reference finished signatures
    for i in (0..ntpl).rev() {
        let dir: Vec<String> = if i == 0 { vec![] } else { r.pick(dirs).iter().map(|s| s.to_string()).collect() };
        let mut params: Vec<(String, String, bool)> = GLOBALS.iter().map(|(n, _, t)| (n.to_string(), t.to_string(), false)).collect();
        // declared order is random
        for j in (1..params.len()).rev() {
            let k = r.below(j + 1);
            params.swap(j, k);
        }
        let mut content = Vec::new();
        if i > 0 {
            for cn in ["body", "extra", "third"].iter().take(r.below(4)) {
                let at = r.below(params.len() + 1);
                params.insert(at, (cn.to_string(), "Content".to_string(), true));
                content.push(cn.to_string());
            }
        }
        let callees: Vec<TplDef> = tpls.clone();
        let mut sc = Scope { vars: GLOBALS.iter().map(|(n, t, _)| (n.to_string(), *t)).collect(), content, in_loop: false, gift_used: false };
        let mut budget = 10;
        let mut body = gen_body(r, &mut sc, depth, &mut budget, &callees);
        // make sure something is rendered and the leading-layout rule does not bite
        body.insert(0, Node::Text(format!("[{}:", i).into_bytes()));
        if matches!(body.get(1), Some(Node::Text(_))) {
            body.insert(1, Node::EscAt);
        }
        body.push(Node::Text(b"]".to_vec()));
        let name = format!("t{i}");
        let mut uses = vec!["use crate::Pt".to_string()];
        for c in &callees {
            let fname = c.fn_name();
            let used = nodes_call(&body, &fname);
            if used {
                // absolute path, or relative through `super`
                if r.chance(1, 2) {
                    uses.push(format!("use {}::{}", module_path(id, &c.dir), fname));
                } else {
                    let mut p = String::from("super");
                    for _ in 0..dir.len() {
                        p.push_str("::super");
                    }
                    for d in &c.dir {
                        p.push_str("::");
                        p.push_str(d);
                    }
                    uses.push(format!("use {p}::{fname}"));
                }
            }
        }
        tpls.insert(0, TplDef { name, dir, ext: *r.pick(&["html", "svg", "xml"]), params, uses, body });
    }
    Program { id, tpls }
}

fn nodes_call(ns: &[Node], fname: &str) -> bool {
    ns.iter().any(|n| match n {
        Node::Call { name, args } => name == fname || args.iter().any(|a| matches!(a, Arg::Body(b) if nodes_call(b, fname))),
        Node::If { body, els, .. } => {
            nodes_call(body, fname)
                || match els {
                    Else::None => false,
                    Else::Block(b) => nodes_call(b, fname),
                    Else::ElseIf(n) => nodes_call(std::slice::from_ref(&**n), fname),
                }
        }
        Node::For { body, .. } => nodes_call(body, fname),
        Node::Match { arms, .. } => arms.iter().any(|(_, b)| nodes_call(b, fname)),
        _ => false,
    })
}

// ---------------------------------------------------------------------------------------
#[derive(Clone)]
pub struct EnvVals {
    pub s: String,
    pub t: String,
    pub n: i32,
    pub m: i32,
    pub b: bool,
    pub c: bool,
    pub xs: Vec<i32>,
    pub ws: Vec<String>,
    pub ps: Vec<(i32, String)>,
    pub o: Option<String>,
    pub q: Option<i32>,
    pub pts: Vec<(i32, i32)>,
    pub own: String,
}

fn rand_str(r: &mut Rng) -> String {
    r.pick(&["", "x", "a", "a<b", "Tom & \"Jerry\"", "it's", "é>è", "plain text", "<script>alert(1)</script>"]).to_string()
}

pub fn rand_env(r: &mut Rng) -> EnvVals {
    let small = |r: &mut Rng| -> i32 { *r.pick(&[0, 1, 2, 3, -1, 7, 100]) };
    EnvVals {
        s: rand_str(r),
        t: rand_str(r),
        n: small(r),
        m: small(r),
        b: r.chance(1, 2),
        c: r.chance(1, 2),
        xs: (0..r.below(4)).map(|_| small(r)).collect(),
        ws: (0..r.below(4)).map(|_| rand_str(r)).collect(),
        ps: (0..r.below(3)).map(|_| (small(r), rand_str(r))).collect(),
        o: if r.chance(1, 2) { Some(rand_str(r)) } else { None },
        q: match r.below(3) {
            0 => None,
            1 => Some(0),
            _ => Some(small(r)),
        },
        pts: (0..r.below(3)).map(|_| (small(r), small(r))).collect(),
        own: rand_str(r),
    }
}

fn rs(s: &str) -> String {
    format!("{s:?}")
}

impl EnvVals {
    fn rust_arg(&self, name: &str) -> String {
        match name {
            "s" => rs(&self.s),
            "t" => rs(&self.t),
            "n" => self.n.to_string(),
            "m" => self.m.to_string(),
            "b" => self.b.to_string(),
            "c" => self.c.to_string(),
            "xs" => format!("&[{}]", self.xs.iter().map(|x| x.to_string()).collect::<Vec<_>>().join(", ")),
            "ws" => format!("&[{}]", self.ws.iter().map(|x| rs(x)).collect::<Vec<_>>().join(", ")),
            "ps" => format!("&[{}]", self.ps.iter().map(|(a, b)| format!("({a}, {})", rs(b))).collect::<Vec<_>>().join(", ")),
            "o" => match &self.o {
                Some(v) => format!("Some({})", rs(v)),
                None => "None".into(),
            },
            "q" => match &self.q {
                Some(v) => format!("Some({v})"),
                None => "None".into(),
            },
            "pts" => format!("&[{}]", self.pts.iter().map(|(x, y)| format!("Pt {{ x: {x}, y: {y} }}")).collect::<Vec<_>>().join(", ")),
            "own" => format!("String::from({})", rs(&self.own)),
            "gift" => format!("String::from({})", rs(&format!("gift:{}", self.own))),
            _ => "()".into(),
        }
    }
    fn model(&self) -> String {
        let sv = |s: &str| format!("s{}", hex(s.as_bytes()));
        let items: Vec<(&str, String)> = vec![
            ("s", sv(&self.s)),
            ("t", sv(&self.t)),
            ("n", format!("i{}", self.n)),
            ("m", format!("i{}", self.m)),
            ("b", format!("b{}", self.b as u8)),
            ("c", format!("b{}", self.c as u8)),
            ("xs", format!("L[{}]", self.xs.iter().map(|x| format!("i{x}")).collect::<Vec<_>>().join(","))),
            ("ws", format!("L[{}]", self.ws.iter().map(|x| sv(x)).collect::<Vec<_>>().join(","))),
            ("ps", format!("L[{}]", self.ps.iter().map(|(a, b)| format!("T(i{a},{})", sv(b))).collect::<Vec<_>>().join(","))),
            ("o", match &self.o { Some(v) => format!("O({})", sv(v)), None => "O-".into() }),
            ("q", match &self.q { Some(v) => format!("O(i{v})"), None => "O-".into() }),
            ("pts", format!("L[{}]", self.pts.iter().map(|(x, y)| format!("P{x}_{y}")).collect::<Vec<_>>().join(","))),
            ("own", sv(&self.own)),
            ("gift", sv(&format!("gift:{}", self.own))),
        ];
        items.iter().map(|(n, v)| format!("{}={}", hex(n.as_bytes()), v)).collect::<Vec<_>>().join(";")
    }
}

const MAIN_PRELUDE: &str = r#"#![allow(warnings)]
use std::io::{self, Write};
pub struct Pt { pub x: i32, pub y: i32 }
fn hex(b: &[u8]) -> String { if b.is_empty() { return "-".into(); } b.iter().map(|x| format!("{:02x}", x)).collect() }
/// fails permanently once `limit` bytes were accepted; accepts at most `chunk` bytes per call;
/// reports Interrupted on every `intr`-th call
struct Fault { limit: usize, chunk: usize, intr: usize, calls: usize, got: Vec<u8>, failed: bool, after_fail: usize, flavour: usize }
/// the failure a sink reports: an error with a payload, an operating-system error (no payload), a bare kind
fn injected(flavour: usize) -> io::Error {
    match flavour % 3 { 0 => io::Error::new(io::ErrorKind::Other, "injected"), 1 => io::Error::from_raw_os_error(32), _ => io::ErrorKind::ConnectionReset.into() }
}
fn same_error(a: &io::Error, b: &io::Error) -> bool { a.kind() == b.kind() && a.raw_os_error() == b.raw_os_error() && a.to_string() == b.to_string() && a.get_ref().is_some() == b.get_ref().is_some() }
impl Write for Fault {
    fn write(&mut self, data: &[u8]) -> io::Result<usize> {
        self.calls += 1;
        if self.failed { self.after_fail += 1; return Err(injected(self.flavour)); }
        if self.intr > 0 && self.calls % self.intr == 0 { return Err(io::Error::new(io::ErrorKind::Interrupted, "intr")); }
        if self.got.len() >= self.limit { self.failed = true; return Err(injected(self.flavour)); }
        let n = data.len().min(self.chunk).min(self.limit - self.got.len());
        self.got.extend_from_slice(&data[..n]);
        Ok(n)
    }
    fn flush(&mut self) -> io::Result<()> { Ok(()) }
}
fn faults(id: &str, full: &[u8], run: &dyn Fn(&mut dyn Write) -> io::Result<()>) {
    let n = full.len();
    let mut runs = 0usize;
    let offsets: Vec<usize> = if n <= 48 { (0..=n + 1).collect() } else { let mut v: Vec<usize> = (0..16).collect(); v.extend((16..n).step_by(n / 24 + 1)); v.extend([n - 1, n, n + 1]); v };
    for (j, k) in offsets.iter().enumerate() {
        let (chunk, intr) = match j % 4 { 0 => (1, 0), 1 => (usize::MAX, 0), 2 => (3, 2), _ => (7, 5) };
        let flavour = j / 4 + *k;
        let mut f = Fault { limit: *k, chunk, intr, calls: 0, got: vec![], failed: false, after_fail: 0, flavour };
        let r = run(&mut f);
        runs += 1;
        let want = &full[..(*k).min(n)];
        if f.got != want { println!("F {} {} prefix: accepted {} is not the first {} bytes of the full rendering {}", id, k, hex(&f.got), k, hex(full)); }
        if (*k < n) != r.is_err() { println!("F {} {} result: limit {} of {} bytes but the function returned {:?}", id, k, k, n, r.as_ref().map_err(|e| e.to_string())); }
        if let Err(e) = &r { if !same_error(e, &injected(flavour)) { println!("F {} {} error: returned error is {:?} (kind {:?}, os error {:?}), not the injected one {:?}", id, k, e.to_string(), e.kind(), e.raw_os_error(), injected(flavour).to_string()); } }
        if f.after_fail > 0 { println!("F {} {} continued: {} write calls after the sink failed", id, k, f.after_fail); }
    }
    println!("S {} {}", id, runs);
}
"#;

struct Test {
    id: String,
    prog: usize,
    env: EnvVals,
}

/// writes one crate for a batch of programs, builds and runs it; returns the stdout lines
fn build_batch(root: &Path, progs: &[Program], tests: &[Test], layout_seed: Option<u64>) -> Result<Vec<String>, String> {
    let _ = std::fs::remove_dir_all(root);
    let tdir = root.join("templates");
    let mut lr = layout_seed.map(|s| Rng::new(s, "e2e-layout"));
    for p in progs {
        for t in &p.tpls {
            let mut d = tdir.join(format!("p{}", p.id));
            for x in &t.dir {
                d = d.join(x);
            }
            std::fs::create_dir_all(&d).map_err(|e| e.to_string())?;
            std::fs::write(d.join(format!("{}.rs.{}", t.name, t.ext)), t.source(lr.as_mut())).map_err(|e| e.to_string())?;
        }
    }
    let out = root.join("out");
    std::fs::create_dir_all(&out).map_err(|e| e.to_string())?;
    {
        let mut ructe = ructe::Ructe::new(out.clone()).map_err(|e| format!("{e:?}"))?;
        ructe.compile_templates(&tdir).map_err(|e| format!("{e:?}"))?;
    }
    let mut main = String::from(MAIN_PRELUDE);
    main.push_str(&format!("include!({:?});\n", out.join("templates.rs").display().to_string()));
    main.push_str("fn main() {\n");
    for t in tests {
        let p = progs.iter().find(|p| p.id == t.prog).unwrap();
        let entry = &p.tpls[0];
        let args: Vec<String> = entry.params.iter().map(|(n, _, _)| t.env.rust_arg(n)).collect();
        main.push_str(&format!(
            "  {{ let run = |w: &mut dyn Write| -> io::Result<()> {{ templates::p{}::{}(w, {}) }};\n    let mut full = Vec::new(); let r = run(&mut full);\n    println!(\"T {} {{}} {{}}\", if r.is_ok() {{ \"ok\" }} else {{ \"err\" }}, hex(&full));\n    faults({:?}, &full, &run); }}\n",
            p.id,
            entry.fn_name(),
            args.join(", "),
            t.id,
            t.id
        ));
    }
    main.push_str("}\n");
    std::fs::write(root.join("main.rs"), main).map_err(|e| e.to_string())?;
    let c = std::process::Command::new("rustc")
        .args(["--edition", "2021", "--error-format=short", "-C", "debuginfo=0", "-o"])
        .arg(root.join("bin"))
        .arg(root.join("main.rs"))
        .output()
        .map_err(|e| e.to_string())?;
    if !c.status.success() {
        return Err(format!("rustc: {}", String::from_utf8_lossy(&c.stderr).lines().filter(|l| l.contains("error")).take(6).collect::<Vec<_>>().join(" | ")));
    }
    let o = std::process::Command::new(root.join("bin")).output().map_err(|e| e.to_string())?;
    if !o.status.success() {
        return Err(format!("generated program crashed: {}", String::from_utf8_lossy(&o.stderr).chars().take(600).collect::<String>()));
    }
    Ok(String::from_utf8_lossy(&o.stdout).lines().map(|s| s.to_string()).collect())
}

pub fn run(args: &crate::Args) {
    let dir = &args.out;
    let nprog = args.n;
    let batch = 12usize;
    let envs_per_prog = 3usize;
    let mut r = Rng::new(args.seed, "e2e");
    let mut progs: Vec<Program> = (0..nprog).map(|i| gen_program(&mut r, i, 3)).collect();
    // corpus programs are not supported for e2e (they need types); shapes from issues 68 / 81 are
    // part of the generator (text after blocks, else-if chains)
    let mut tests: Vec<Test> = Vec::new();
    for p in &progs {
        for e in 0..envs_per_prog {
            tests.push(Test { id: format!("p{}e{}", p.id, e), prog: p.id, env: rand_env(&mut r) });
        }
    }
    let nb = (nprog + batch - 1) / batch;
    let results: std::sync::Mutex<Vec<(usize, Result<Vec<String>, String>)>> = std::sync::Mutex::new(Vec::new());
    let progs_ref = &progs;
    let tests_ref = &tests;
    let pid = std::process::id();
    let next = std::sync::atomic::AtomicUsize::new(0);
    let layout = args.rest.iter().any(|a| a == "--layout");
    std::thread::scope(|s| {
        for _ in 0..8 {
            s.spawn(|| loop {
                let b = next.fetch_add(1, std::sync::atomic::Ordering::SeqCst);
                if b >= nb {
                    break;
                }
                let ps: Vec<Program> = progs_ref[b * batch..((b + 1) * batch).min(nprog)].iter().map(|p| Program { id: p.id, tpls: p.tpls.clone() }).collect();
                let ids: Vec<usize> = ps.iter().map(|p| p.id).collect();
                let ts: Vec<Test> = tests_ref.iter().filter(|t| ids.contains(&t.prog)).map(|t| Test { id: t.id.clone(), prog: t.prog, env: t.env.clone() }).collect();
                let root = PathBuf::from(format!("/dev/shm/ructe-verif-e2e.{pid}.{b}"));
                let mut res = build_batch(&root, &ps, &ts, if layout { Some(args.seed + b as u64) } else { None });
                if res.is_err() {
                    // attribute: build each program on its own
                    let mut lines = Vec::new();
                    let mut errs = Vec::new();
                    for p in &ps {
                        let one = vec![Program { id: p.id, tpls: p.tpls.clone() }];
                        let ts1: Vec<Test> = ts.iter().filter(|t| t.prog == p.id).map(|t| Test { id: t.id.clone(), prog: t.prog, env: t.env.clone() }).collect();
                        match build_batch(&root, &one, &ts1, if layout { Some(args.seed + b as u64) } else { None }) {
                            Ok(l) => lines.extend(l),
                            Err(e) => errs.push(format!("E p{} {}", p.id, e)),
                        }
                    }
                    lines.extend(errs);
                    res = Ok(lines);
                }
                let _ = std::fs::remove_dir_all(&root);
                results.lock().unwrap().push((b, res));
            });
        }
    });
    let mut all: Vec<String> = Vec::new();
    let mut rs = results.into_inner().unwrap();
    rs.sort_by_key(|x| x.0);
    for (_, r) in rs {
        if let Ok(l) = r {
            all.extend(l);
        }
    }
    let mut req = std::io::BufWriter::new(std::fs::File::create(format!("{dir}/req.txt")).unwrap());
    let mut imp = std::io::BufWriter::new(std::fs::File::create(format!("{dir}/impl.txt")).unwrap());
    let mut orc = std::io::BufWriter::new(std::fs::File::create(format!("{dir}/oracle.jsonl")).unwrap());
    let mut stats = Counter::new();
    let mut by_test: std::collections::BTreeMap<String, String> = Default::default();
    let mut failed_progs: std::collections::BTreeMap<usize, String> = Default::default();
    let _ = std::fs::remove_file(format!("{dir}/infra.txt"));
    let prog_src = |p: &Program| -> String {
        p.tpls.iter().map(|t| format!("--- p{}/{}{}.rs.{}\n{}", p.id, t.dir.iter().map(|d| format!("{d}/")).collect::<String>(), t.name, t.ext, String::from_utf8_lossy(&t.source(None)))).collect::<Vec<_>>().join("\n")
    };
    for l in &all {
        let f: Vec<&str> = l.splitn(4, ' ').collect();
        match f[0] {
            "T" => {
                by_test.insert(f[1].to_string(), format!("{} {}", f[2], f[3]));
            }
            "S" => stats.add("fault.runs", f[2].parse().unwrap_or(0)),
            "F" => {
                stats.hit("fault.failures");
                let tid = f[1];
                let pidn: usize = tid[1..].split('e').next().unwrap().parse().unwrap_or(0);
                let p = &progs[pidn];
                writeln!(
                    orc,
                    "{{\"tags\":[\"C14\"],\"kind\":\"sink-fault\",\"case\":{},\"test\":{},\"detail\":{},\"program\":{}}}",
                    pidn,
                    jstr(tid),
                    jstr(&l[2..]),
                    jstr(&prog_src(p))
                )
                .unwrap();
            }
            "E" => {
                let pidn: usize = f[1][1..].parse().unwrap_or(0);
                failed_progs.insert(pidn, l[2..].to_string());
            }
            _ => {}
        }
    }
    // a failure that does not point into a source file is an infrastructure problem (rustc could not
    // run, scratch space exhausted, …), not a property of the generated code
    let infra: Vec<String> = failed_progs.iter().filter(|(_, w)| !w.contains(".rs:")).map(|(p, w)| format!("p{p}: {w}")).collect();
    if !infra.is_empty() {
        std::fs::write(format!("{dir}/infra.txt"), infra.join("\n")).unwrap();
    }
    failed_progs.retain(|_, w| w.contains(".rs:"));
    for (pidn, why) in &failed_progs {
        stats.hit("programs.not_compiling");
        writeln!(
            orc,
            "{{\"tags\":[\"C01\",\"C03\",\"C04\",\"C10\",\"C13\",\"C14\"],\"kind\":\"generated-code-does-not-compile\",\"case\":{},\"detail\":{},\"program\":{}}}",
            pidn,
            jstr(why),
            jstr(&prog_src(&progs[*pidn]))
        )
        .unwrap();
    }
    let mut distinct = std::collections::BTreeSet::new();
    for t in &tests {
        let p = &progs[t.prog];
        let defs: Vec<String> = p.tpls.iter().map(|d| format!("{}:{}", hex(d.fn_name().as_bytes()), hex(&d.source(None)))).collect();
        writeln!(req, "render {} {} {}", defs.join(";"), hex(p.tpls[0].fn_name().as_bytes()), t.env.model()).unwrap();
        match by_test.get(&t.id) {
            Some(a) => {
                writeln!(imp, "{a}").unwrap();
                stats.hit("tests.run");
                distinct.insert(a.clone());
            }
            None => {
                writeln!(imp, "not-run").unwrap();
                stats.hit("tests.not_run");
            }
        }
    }
    fn count_nodes(ns: &[Node], stats: &mut Counter) {
        for n in ns {
            match n {
                Node::If { body, els, cond } => {
                    stats.hit(if matches!(cond, Cond::Let(..)) { "construct.if_let" } else { "construct.if" });
                    count_nodes(body, stats);
                    match els {
                        Else::None => {}
                        Else::Block(b) => {
                            stats.hit("construct.else");
                            count_nodes(b, stats)
                        }
                        Else::ElseIf(n) => {
                            stats.hit("construct.else_if");
                            count_nodes(std::slice::from_ref(&**n), stats)
                        }
                    }
                }
                Node::For { body, .. } => {
                    stats.hit("construct.for");
                    count_nodes(body, stats)
                }
                Node::Match { arms, .. } => {
                    stats.hit("construct.match");
                    for (_, b) in arms {
                        count_nodes(b, stats)
                    }
                }
                Node::Call { args, .. } => {
                    stats.hit("construct.call");
                    for a in args {
                        if let Arg::Body(b) = a {
                            stats.hit(if b.is_empty() { "construct.block_empty" } else { "construct.block" });
                            count_nodes(b, stats)
                        }
                    }
                }
                Node::Expr(_) | Node::Paren(_) => stats.hit("construct.expr"),
                Node::Text(_) => stats.hit("construct.text"),
                Node::Comment(_) => stats.hit("construct.comment"),
                _ => stats.hit("construct.escape"),
            }
        }
    }
    for p in &progs {
        for t in &p.tpls {
            count_nodes(&t.body, &mut stats);
        }
    }
    for p in &progs {
        stats.add("templates", p.tpls.len() as u64);
        for t in &p.tpls {
            if t.params.iter().any(|x| x.2) {
                stats.hit("templates.with_content_params");
            }
            if !t.dir.is_empty() {
                stats.hit("templates.in_submodules");
            }
        }
    }
    progs.clear();
    stats.add("cases", tests.len() as u64);
    stats.add("distinct.renderings", distinct.len() as u64);
    std::fs::write(format!("{dir}/stats.json"), stats.json()).unwrap();
}
