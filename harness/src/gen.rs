//! Template generators: structured source trees with layout slots, token-alphabet
//! strings, and mutations of the example templates.
use crate::util::{hex, Rng};

#[derive(Clone, Debug)]
pub enum Node {
    Text(Vec<u8>),
    EscAt,
    EscOpen,
    EscClose,
    Comment(Vec<u8>),
    Expr(String),
    Paren(String),
    If { cond: Cond, body: Vec<Node>, els: Else },
    For { pat: Pat, iter: String, body: Vec<Node> },
    Match { expr: String, arms: Vec<(String, Vec<Node>)> },
    Call { name: String, args: Vec<Arg> },
}
#[derive(Clone, Debug)]
pub enum Else {
    None,
    ElseIf(Box<Node>),
    Block(Vec<Node>),
}
#[derive(Clone, Debug)]
pub enum Arg {
    Rust(String),
    Body(Vec<Node>),
}
#[derive(Clone, Debug)]
pub enum Cond {
    /// operands and operators alternate: `[!]e (op e)*`; printed with layout around operators
    Logic { neg: bool, first: String, rest: Vec<(String, String)> },
    Let(String, String),
}
#[derive(Clone, Debug)]
pub enum Pat {
    Name(String),
    /// `name{..}` struct destructuring, printed verbatim
    Struct(String),
    Tuple { amp: bool, items: Vec<String> },
}

#[derive(Clone, Debug)]
pub struct Tpl {
    pub uses: Vec<String>,
    pub lifetimes: Vec<String>,
    /// (name, type)
    pub params: Vec<(String, String)>,
    pub body: Vec<Node>,
}

/// How insignificant material is chosen.
pub enum Layout<'a> {
    Canonical,
    Random(&'a mut Rng),
}

const WS: &[&str] = &[" ", "  ", "\n", "\r\n", "\t", " \n  ", "\n\n"];
const COMMENTS: &[&str] = &[
    "@* c *@",
    "@**@",
    "@* a * b *@",
    "@* multi\nline *@",
    "@** doc **@",
    "@* { } @ ( *@",
    "@*** x ***@",
    "@* \"q\" *@",
    // a comment opener inside a comment is text: the first `*@` closes
    "@* was: @* old *@",
    "@*@*x*@",
    "@* @* *@",
];

impl Layout<'_> {
    /// spacelike material that may be empty
    fn sp0(&mut self, canon: &str) -> String {
        match self {
            Layout::Canonical => canon.to_string(),
            Layout::Random(r) => {
                let mut s = String::new();
                let n = r.below(4);
                for _ in 0..n {
                    if r.chance(1, 3) {
                        s.push_str(*r.pick(COMMENTS));
                    } else {
                        s.push_str(*r.pick(WS));
                    }
                }
                s
            }
        }
    }
    /// spacelike material, non-empty, starting with something that cannot fuse with a
    /// preceding name / fragment (white space or a comment)
    fn sp1(&mut self, canon: &str) -> String {
        match self {
            Layout::Canonical => canon.to_string(),
            Layout::Random(r) => {
                let mut s = if r.chance(1, 4) {
                    r.pick(COMMENTS).to_string()
                } else {
                    r.pick(WS).to_string()
                };
                s.push_str(&Layout::Random(r).sp0(""));
                s
            }
        }
    }
    /// white space only (multispace0 slots)
    fn ws0(&mut self, canon: &str) -> String {
        match self {
            Layout::Canonical => canon.to_string(),
            Layout::Random(r) => {
                let mut s = String::new();
                for _ in 0..r.below(3) {
                    s.push_str(*r.pick(WS));
                }
                s
            }
        }
    }
}

fn push(out: &mut Vec<u8>, s: &str) {
    out.extend_from_slice(s.as_bytes());
}

pub fn print_cond(c: &Cond, l: &mut Layout, out: &mut Vec<u8>) {
    match c {
        Cond::Logic { neg, first, rest } => {
            if *neg {
                push(out, "!");
            }
            push(out, first);
            for (op, e) in rest {
                // layout inside a fragment is significant for the text, so it is fixed
                let _ = &l;
                push(out, " ");
                push(out, op);
                push(out, " ");
                push(out, e);
            }
        }
        Cond::Let(lhs, rhs) => {
            push(out, "let");
            push(out, &l.sp1(" "));
            push(out, lhs);
            push(out, &l.sp0(" "));
            push(out, "=");
            push(out, &l.sp0(" "));
            push(out, rhs);
        }
    }
}

pub fn print_nodes(ns: &[Node], l: &mut Layout, out: &mut Vec<u8>) {
    for n in ns {
        print_node(n, l, out);
    }
}

fn print_if_tail_nolead(cond: &Cond, body: &[Node], els: &Else, l: &mut Layout, out: &mut Vec<u8>) {
    print_cond(cond, l, out);
    push(out, &l.sp1(" "));
    push(out, "{");
    print_nodes(body, l, out);
    push(out, "}");
    match els {
        Else::None => {}
        Else::ElseIf(n) => {
            if let Node::If { cond, body, els } = &**n {
                push(out, &l.sp0(" "));
                push(out, "else");
                push(out, &l.sp1(" "));
                push(out, "if");
                push(out, &l.sp1(" "));
                print_if_tail_nolead(cond, body, els, l, out);
            }
        }
        Else::Block(b) => {
            push(out, &l.sp0(" "));
            push(out, "else");
            push(out, &l.sp0(" "));
            push(out, "{");
            print_nodes(b, l, out);
            push(out, "}");
        }
    }
}

pub fn print_pat(p: &Pat, out: &mut Vec<u8>) {
    match p {
        Pat::Name(n) | Pat::Struct(n) => push(out, n),
        Pat::Tuple { amp, items } => {
            if *amp {
                push(out, "&");
            }
            push(out, "(");
            push(out, &items.join(", "));
            push(out, ")");
        }
    }
}

pub fn print_node(n: &Node, l: &mut Layout, out: &mut Vec<u8>) {
    match n {
        Node::Text(t) => out.extend_from_slice(t),
        Node::EscAt => push(out, "@@"),
        Node::EscOpen => push(out, "@{"),
        Node::EscClose => push(out, "@}"),
        Node::Comment(c) => {
            push(out, "@*");
            out.extend_from_slice(c);
            push(out, "*@");
        }
        Node::Expr(e) => {
            push(out, "@");
            push(out, e);
        }
        Node::Paren(e) => {
            push(out, "@(");
            push(out, e);
            push(out, ")");
        }
        Node::If { cond, body, els } => {
            push(out, "@if ");
            push(out, &l.sp0(""));
            print_if_tail_nolead(cond, body, els, l, out);
        }
        Node::For { pat, iter, body } => {
            push(out, "@for ");
            push(out, &l.sp0(""));
            print_pat(pat, out);
            push(out, &l.sp1(" "));
            push(out, "in");
            push(out, &l.sp1(" "));
            push(out, iter);
            push(out, &l.sp1(" "));
            push(out, "{");
            print_nodes(body, l, out);
            push(out, "}");
        }
        Node::Match { expr, arms } => {
            push(out, "@match ");
            push(out, &l.sp0(""));
            push(out, expr);
            push(out, &l.sp1(" "));
            push(out, "{");
            for (p, b) in arms {
                push(out, &l.sp0("\n  "));
                push(out, p);
                push(out, &l.sp1(" "));
                push(out, "=>");
                push(out, &l.sp0(" "));
                push(out, "{");
                print_nodes(b, l, out);
                push(out, "}");
            }
            push(out, &l.sp0("\n"));
            push(out, "}");
        }
        Node::Call { name, args } => {
            push(out, "@:");
            push(out, name);
            push(out, "(");
            for (i, a) in args.iter().enumerate() {
                if i > 0 {
                    push(out, ",");
                    push(out, &l.sp0(" "));
                }
                match a {
                    Arg::Rust(s) => push(out, s),
                    Arg::Body(b) => {
                        push(out, "{");
                        print_nodes(b, l, out);
                        push(out, "}");
                        push(out, &l.sp0(""));
                    }
                }
            }
            push(out, ")");
        }
    }
}

pub fn print_tpl(t: &Tpl, l: &mut Layout) -> Vec<u8> {
    let mut out = Vec::new();
    push(&mut out, &l.sp0(""));
    for u in &t.uses {
        push(&mut out, "@");
        push(&mut out, u);
        push(&mut out, ";");
        push(&mut out, &l.sp0("\n"));
    }
    push(&mut out, "@");
    if !t.lifetimes.is_empty() {
        push(&mut out, "<");
        push(&mut out, &t.lifetimes.join(", "));
        push(&mut out, ">");
    }
    push(&mut out, "(");
    push(&mut out, &l.ws0(""));
    for (i, (n, ty)) in t.params.iter().enumerate() {
        if i > 0 {
            push(&mut out, ",");
            push(&mut out, &l.ws0(" "));
        }
        push(&mut out, n);
        push(&mut out, ": ");
        push(&mut out, ty);
    }
    push(&mut out, &l.ws0(""));
    push(&mut out, ")");
    push(&mut out, &l.sp0("\n"));
    print_nodes(&t.body, l, &mut out);
    out
}

/// The syntax tree the documentation says this source denotes, in the dump format shared
/// with the hook (`ast_dump`) and the Lean driver.
pub fn intended_dump(t: &Tpl) -> String {
    let uses: Vec<String> = t.uses.iter().map(|u| hex(u.as_bytes())).collect();
    let args: Vec<String> = t
        .params
        .iter()
        .map(|(n, ty)| hex(format!("{n}: {ty}").as_bytes()))
        .collect();
    format!(
        "ok T([{}],{},[{}],{})",
        uses.join(";"),
        hex(t.lifetimes.join(", ").as_bytes()),
        args.join(";"),
        dump_nodes(&t.body)
    )
}

fn cond_str(c: &Cond) -> String {
    let mut v = Vec::new();
    match c {
        Cond::Logic { .. } => print_cond(c, &mut Layout::Canonical, &mut v),
        Cond::Let(l, r) => v.extend_from_slice(format!("let {l} = {r}").as_bytes()),
    }
    String::from_utf8(v).unwrap()
}

pub fn dump_nodes(ns: &[Node]) -> String {
    // adjacent text nodes are one node for the parser
    let mut parts: Vec<String> = Vec::new();
    let mut pending: Vec<u8> = Vec::new();
    for n in ns {
        if let Node::Text(t) = n {
            pending.extend_from_slice(t);
            continue;
        }
        if !pending.is_empty() {
            parts.push(format!("X{}", hex(&pending)));
            pending.clear();
        }
        parts.push(match n {
            Node::Text(_) => unreachable!(),
            Node::EscAt => format!("X{}", hex(b"@")),
            Node::EscOpen => format!("X{}", hex(b"{")),
            Node::EscClose => format!("X{}", hex(b"}")),
            Node::Comment(_) => "C".into(),
            Node::Expr(e) => format!("E{}", hex(e.as_bytes())),
            Node::Paren(e) => format!("E{}", hex(format!("({e})").as_bytes())),
            Node::If { cond, body, els } => format!(
                "I({},{},{})",
                hex(cond_str(cond).as_bytes()),
                dump_nodes(body),
                match els {
                    Else::None => "-".to_string(),
                    Else::ElseIf(n) => dump_nodes(std::slice::from_ref(&**n)),
                    Else::Block(b) => dump_nodes(b),
                }
            ),
            Node::For { pat, iter, body } => {
                let mut p = Vec::new();
                print_pat(pat, &mut p);
                format!("F({},{},{})", hex(&p), hex(iter.as_bytes()), dump_nodes(body))
            }
            Node::Match { expr, arms } => {
                let v: Vec<String> = arms
                    .iter()
                    .map(|(p, b)| format!("({},{})", hex(p.as_bytes()), dump_nodes(b)))
                    .collect();
                format!("M({},[{}])", hex(expr.as_bytes()), v.join(";"))
            }
            Node::Call { name, args } => {
                let v: Vec<String> = args
                    .iter()
                    .map(|a| match a {
                        Arg::Rust(s) => format!("R{}", hex(s.as_bytes())),
                        Arg::Body(b) => format!("B{}", dump_nodes(b)),
                    })
                    .collect();
                format!("K({},[{}])", hex(name.as_bytes()), v.join(";"))
            }
        });
    }
    if !pending.is_empty() {
        parts.push(format!("X{}", hex(&pending)));
    }
    format!("[{}]", parts.join(";"))
}

// ---------------------------------------------------------------------------------------
// Random structured templates (untyped: fragments are syntactically valid, not type-checked)

const NAMES: &[&str] = &["a", "b", "item", "x1", "_y", "foo_bar", "Zed", "if_", "forx", "in_"];
const EXPRS: &[&str] = &[
    "a",
    "b.c",
    "item.name()",
    "x1[0]",
    "foo::bar(1, \"s)\")",
    "&a.b",
    "f(a, (b, c))",
    "v[i + 1].w",
    "m!(a)[0]",
    "format!(\"{}-{}\", a, b)",
    "\"lit\"",
    "42",
    "(a + b)",
    "a::b::C",
    "x.iter().map(|y| y / 2).count()",
    "p(/* ) */ q)",
    "s.replace(\"}\", \"{\")",
    "vec![1, 2]",
    // template syntax inside a string literal of a fragment is Rust text, not template syntax
    "\"@* draft *@\"",
    "\"@*\"",
    "t.contains(\"@*\")",
    "\"*@ @{ @@\"",
    // fragments spanning several lines: line breaks, indentation and blank lines inside a string
    // literal or a group are part of the fragment
    "\"Usage:\n    prog [options]\n\n      -v   verbose\"",
    "f(\n    a,\n    b\n)",
    "g(\"two  spaces\ttab \", x)",
    "h(a /* multi\n   line */, \"x\r\ny\")",
    "m![\n  1,\n\n  2\n]",
    "t.get(\"k\n\")[ 0 ]",
];
const PAREN_INNER: &[&str] = &[
    "a + b",
    "a / b",
    "x.len() * (y - 1)",
    "\")\"",
    "a /* ( */",
    "[1, 2][0]",
    "a /(b+1)",
    "if a { 1 } else { 2 }",
    "",
];
const OPS: &[&str] = &["==", "!=", "<", "<=", ">", ">=", "&&", "||"];
const TYPES: &[&str] = &[
    "&str",
    "i32",
    "&'a str",
    "&[u8]",
    "Vec<String>",
    "&[(i32, &str)]",
    "Option<&T>",
    "(A, B,)",
    "HashMap<K, V,>",
    "impl Display",
    "&dyn ToHtml",
    "&'_ Foo<'a, T>",
    "Content",
    "ContentType",
    "Contents",
    "MyContent",
    "&Content",
    "Vec<Content>",
    "[Content]",
];
const USES: &[&str] = &[
    "use std::fmt::Display",
    "use super::Foo as Bar",
    "use crate::models::*",
    "use std::collections::{HashMap, BTreeMap}",
    "use super::statics::style_css",
    "use  a::b ",
    // items spelled like the markers a code generator fills in (`{name}`, `{}`, `{0}`): user text is never a format
    "use crate::helpers::{name}",
    "use crate::helpers::{args}",
    "use m::{generics}",
    "use m::{preamble, name}",
    "use m::{type_args, body}",
    "use m::{self}",
    "use m::{}",
    "use m::{name, args, generics}",
];

/// text that is safe after an `@expr`: starts with a byte that cannot continue the expression
pub fn text_after_expr(r: &mut Rng) -> Vec<u8> {
    let starts: &[&str] = &[
        " ", "<", "\n", ",", ")", ". ", ".)", ";", "! ", "'", "\"", "-", "&", "é", "/", ": ", "?",
        // white space ends the fragment even when something that could continue a chain follows it
        " .len()", " .item ", "\n  .pow(2)", "\t.x", " ::x", " (x)", " [0]", " !(x)", "\r\n.next", " .5em",
        // two dots are no member access
        "..last", "..=9", "..(more)", "...b",
    ];
    let mut t = r.pick(starts).as_bytes().to_vec();
    t.extend(rand_text(r));
    t
}

pub fn rand_text(r: &mut Rng) -> Vec<u8> {
    let pieces: &[&str] = &[
        "a", "Hello", " ", "\n", "\r\n", "\t", "<p>", "</p>", "\"", "'", "\\", "\\n", "\\\"", "&amp;", "é", "日本", "😀",
        "\u{0}", "\u{1}", "\u{7}", "\u{8}", "\u{b}", "\u{c}", "\u{1b}", "\u{1f}", "\u{7f}", "\u{200b}", "\u{2028}",
        "\u{feff}", "\u{301}", "\\u41", "\\x41", "*", "/", "(", ")", "[", "]", ".", ",", ":", ";", "=", "!", "#", "$",
        "%", "^", "~", "`", "|", "?", "0", "else", "if", "in", "  ", "-->", "<!--",
    ];
    // now and then a long run (hundreds to thousands of bytes, across every power-of-two length up to 8 KiB):
    // white space, quotes and backslashes then fall on every offset class of a long literal
    let long = r.chance(1, 14);
    let target = if long { *r.pick(&[130usize, 257, 520, 1023, 1024, 1025, 1030, 2047, 2049, 3000, 4097, 8200]) } else { 0 };
    let n = r.range(1, 5);
    let mut t = Vec::new();
    while t.len() < target {
        match r.below(5) {
            0 => t.extend(std::iter::repeat(b' ').take(r.range(1, 4))),
            1 => t.extend_from_slice(b"\n  <li>item</li>"),
            2 => t.extend_from_slice(r.pick(pieces).as_bytes()),
            3 => t.extend_from_slice(b"word "),
            _ => t.extend_from_slice("\tx \\ \" é".as_bytes()),
        }
    }
    for _ in 0..n {
        if r.chance(1, 12) {
            // any single ASCII byte except @ { }
            let b = r.below(128) as u8;
            if b != b'@' && b != b'{' && b != b'}' {
                t.push(b);
                continue;
            }
        }
        t.extend_from_slice(r.pick(pieces).as_bytes());
    }
    t
}

fn rand_comment(r: &mut Rng) -> Vec<u8> {
    let opts: &[&str] = &[
        " c ", "", " a * b ", "* doc *", " @ { } ( ", "\n line \n", " \"q\" ", "** x **", " é ", " * ", "*", " if x { ",
        " @if a {", " was: @* old ", "@*x", " @* ", "@",
    ];
    r.pick(opts).as_bytes().to_vec()
}

pub struct GenCfg {
    pub depth: usize,
    pub max_nodes: usize,
}

pub fn rand_cond(r: &mut Rng) -> Cond {
    if r.chance(1, 4) {
        let lhs = *r.pick(&["Some(x)", "Ok(v)", "Foo{a, b}", "(a, b)", "Some((k, v))", "[first, ..]"]);
        let rhs = *r.pick(&["opt", "res.as_ref()", "item.get(0)", "pair"]);
        Cond::Let(lhs.into(), rhs.into())
    } else {
        let n = if r.chance(1, 2) { 0 } else { r.range(1, 3) };
        let mut rest = Vec::new();
        for _ in 0..n {
            rest.push((r.pick(OPS).to_string(), r.pick(EXPRS).to_string()));
        }
        Cond::Logic { neg: r.chance(1, 4), first: r.pick(EXPRS).to_string(), rest }
    }
}

pub fn rand_nodes(r: &mut Rng, depth: usize, budget: &mut usize) -> Vec<Node> {
    let n = r.range(0, 5);
    let mut out: Vec<Node> = Vec::new();
    for _ in 0..n {
        if *budget == 0 {
            break;
        }
        *budget -= 1;
        let after_expr = matches!(out.last(), Some(Node::Expr(_)));
        let after_text = matches!(out.last(), Some(Node::Text(_)));
        let k = r.below(if depth == 0 { 7 } else { 12 });
        let node = match k {
            0 | 1 => {
                if after_text {
                    continue;
                }
                if after_expr {
                    Node::Text(text_after_expr(r))
                } else {
                    Node::Text(rand_text(r))
                }
            }
            2 => match r.below(3) {
                0 => Node::EscAt,
                1 => Node::EscOpen,
                _ => Node::EscClose,
            },
            3 => Node::Comment(rand_comment(r)),
            4 | 5 => Node::Expr(r.pick(EXPRS).to_string()),
            6 => Node::Paren(r.pick(PAREN_INNER).to_string()),
            7 | 8 => Node::If { cond: rand_cond(r), body: rand_nodes(r, depth - 1, budget), els: rand_else(r, depth - 1, budget) },
            9 => {
                let pat = match r.below(4) {
                    0 => Pat::Name(r.pick(NAMES).to_string()),
                    1 => Pat::Struct("Pt{x, y}".into()),
                    2 => Pat::Tuple { amp: false, items: vec!["k".into(), "v".into()] },
                    _ => Pat::Tuple { amp: true, items: vec!["a".into(), "(b, c)".into(), "d".into()] },
                };
                let iter = *r.pick(&["items", "&self.rows", "0..n", "1..=10", "map.iter()", "v.iter().enumerate()", "a.b..c.d"]);
                Node::For { pat, iter: iter.into(), body: rand_nodes(r, depth - 1, budget) }
            }
            10 => {
                let na = r.range(1, 4);
                let mut arms = Vec::new();
                let pats: &[&str] = &["Some(x)", "None", "_", "0", "Ok(v)", "Err(e)", "Foo::Bar{a}", "\"lit\"", "(a, b)"];
                for _ in 0..na {
                    arms.push((r.pick(pats).to_string(), rand_nodes(r, depth - 1, budget)));
                }
                Node::Match { expr: r.pick(EXPRS).to_string(), arms }
            }
            _ => {
                let na = r.below(4);
                let mut args = Vec::new();
                for _ in 0..na {
                    if r.chance(1, 3) {
                        args.push(Arg::Body(rand_nodes(r, depth - 1, budget)));
                    } else {
                        args.push(Arg::Rust(r.pick(EXPRS).to_string()));
                    }
                }
                Node::Call { name: r.pick(&["page_html", "base", "super::layout_html", "_p"]).replace("super::", ""), args }
            }
        };
        // an `@expr` directly followed by another node starting with `@` is fine; followed
        // by text needs a safe first byte (handled above); an escape `@{`/`@@` is fine too.
        let bare_if = ends_without_else(&node);
        out.push(node);
        if bare_if && *budget > 0 && r.chance(1, 3) {
            // text after a conditional without `else` that begins like an else branch but is none: it is text,
            // leading white space included
            *budget -= 1;
            let t = *r.pick(&[" elsewhere", "\nelse-ish", " else.", "  elsewise", "\telse(x)", " else", " else\n"]);
            if r.chance(1, 4) {
                out.push(Node::Text(b" ".to_vec()));
                out.push(Node::Comment(b" c ".to_vec()));
            }
            out.push(Node::Text(t.as_bytes().to_vec()));
        }
    }
    // an expression at the very end of a block is followed by `}` (or EOF): fine.
    out
}

pub fn ends_without_else(n: &Node) -> bool {
    match n {
        Node::If { els: Else::None, .. } => true,
        Node::If { els: Else::ElseIf(b), .. } => ends_without_else(b),
        _ => false,
    }
}

fn rand_else(r: &mut Rng, depth: usize, budget: &mut usize) -> Else {
    match r.below(4) {
        0 | 1 => Else::None,
        2 => Else::Block(rand_nodes(r, depth, budget)),
        _ => Else::ElseIf(Box::new(Node::If {
            cond: rand_cond(r),
            body: rand_nodes(r, depth, budget),
            els: if depth > 0 { rand_else(r, depth - 1, budget) } else { Else::None },
        })),
    }
}

pub fn rand_tpl(r: &mut Rng, depth: usize) -> Tpl {
    let mut uses = Vec::new();
    for _ in 0..r.below(3) {
        uses.push(r.pick(USES).to_string());
    }
    let lifetimes = match r.below(5) {
        0 => vec!["'a".to_string()],
        1 => vec!["'a".to_string(), "'b".to_string()],
        _ => vec![],
    };
    let mut params = Vec::new();
    for i in 0..r.below(5) {
        let base = *r.pick(NAMES);
        params.push((format!("{base}{i}"), r.pick(TYPES).to_string()));
    }
    let mut budget = 14;
    let mut body = rand_nodes(r, depth, &mut budget);
    // the run of white space and comments directly after the declaration is dropped by the
    // parser: make the body start with something else
    while matches!(body.first(), Some(Node::Comment(_))) {
        body.remove(0);
    }
    if let Some(Node::Text(t)) = body.first_mut() {
        if t.first().map_or(false, |b| b.is_ascii_whitespace()) {
            t.insert(0, b'x');
        }
    }
    Tpl { uses, lifetimes, params, body }
}

// ---------------------------------------------------------------------------------------
// Token alphabet (C11) and mutations

pub const TOKENS: &[&[u8]] = &[
    b"@", b"{", b"}", b"(", b")", b"[", b"]", b"\"", b"*", b"/", b"\\", b":", b",", b".", b"!", b"&", b"=", b"<", b">",
    b" ", b"\n", b"if ", b"for ", b"in", b"else", b"match ", b"=>", b"ab", b"7", "é".as_bytes(), b"\xff", b"\xc3", b";", b"\r",
    b"\t",
];

pub fn token_string(r: &mut Rng, max: usize) -> Vec<u8> {
    let n = r.range(0, max);
    let mut v = Vec::new();
    for _ in 0..n {
        v.extend_from_slice(*r.pick(TOKENS));
    }
    v
}

pub fn nth_token_string(mut idx: u64, len: usize, alphabet: &[&[u8]]) -> Vec<u8> {
    let mut v = Vec::new();
    for _ in 0..len {
        v.extend_from_slice(alphabet[(idx % alphabet.len() as u64) as usize]);
        idx /= alphabet.len() as u64;
    }
    v
}

pub fn mutate(r: &mut Rng, base: &[u8], others: &[Vec<u8>]) -> Vec<u8> {
    let mut v = base.to_vec();
    let n = r.range(1, 3);
    for _ in 0..n {
        if v.is_empty() {
            v.extend_from_slice(*r.pick(TOKENS));
            continue;
        }
        match r.below(6) {
            0 => {
                let i = r.below(v.len());
                let j = (i + r.range(1, 8)).min(v.len());
                v.drain(i..j);
            }
            1 => {
                let i = r.below(v.len());
                let j = (i + r.range(1, 12)).min(v.len());
                let seg: Vec<u8> = v[i..j].to_vec();
                let at = r.below(v.len() + 1);
                v.splice(at..at, seg);
            }
            2 => {
                let i = r.below(v.len());
                v[i] = r.next() as u8;
            }
            3 => {
                let at = r.below(v.len() + 1);
                let t = r.pick(TOKENS).to_vec();
                v.splice(at..at, t);
            }
            4 => {
                let o = r.pick(others);
                if !o.is_empty() {
                    let i = r.below(o.len());
                    let j = (i + r.range(1, 40)).min(o.len());
                    let at = r.below(v.len() + 1);
                    v.splice(at..at, o[i..j].to_vec());
                }
            }
            _ => {
                let at = r.below(v.len());
                v.truncate(at);
            }
        }
    }
    v
}

pub fn example_templates() -> Vec<(String, Vec<u8>)> {
    fn walk(dir: &std::path::Path, out: &mut Vec<(String, Vec<u8>)>) {
        let Ok(rd) = std::fs::read_dir(dir) else { return };
        let mut entries: Vec<_> = rd.flatten().map(|e| e.path()).collect();
        entries.sort();
        for p in entries {
            if p.is_dir() {
                if p.file_name().map_or(false, |n| n == "target") {
                    continue;
                }
                walk(&p, out);
            } else if let Some(n) = p.file_name().and_then(|n| n.to_str()) {
                if n.ends_with(".rs.html") || n.ends_with(".rs.svg") || n.ends_with(".rs.xml") {
                    if let Ok(b) = std::fs::read(&p) {
                        out.push((p.display().to_string(), b));
                    }
                }
            }
        }
    }
    let mut out = Vec::new();
    let repo = std::env::var("VERIF_REPO").unwrap_or_else(|_| "/repo".into());
    walk(&std::path::Path::new(&repo).join("examples"), &mut out);
    out
}
