//! PRNG, hex, tiny JSON helpers shared by all suites.
use std::fmt::Write as _;

/// splitmix64: every random choice of the harness derives from one of these.
#[derive(Clone)]
pub struct Rng(pub u64);

impl Rng {
    pub fn new(seed: u64, stream: &str) -> Rng {
        let mut h = seed ^ 0x9E37_79B9_7F4A_7C15;
        for b in stream.bytes() {
            h = (h ^ b as u64).wrapping_mul(0x100_0000_01B3);
        }
        let mut r = Rng(h);
        r.next();
        r
    }
    pub fn next(&mut self) -> u64 {
        self.0 = self.0.wrapping_add(0x9E37_79B9_7F4A_7C15);
        let mut z = self.0;
        z = (z ^ (z >> 30)).wrapping_mul(0xBF58_476D_1CE4_E5B9);
        z = (z ^ (z >> 27)).wrapping_mul(0x94D0_49BB_1331_11EB);
        z ^ (z >> 31)
    }
    pub fn below(&mut self, n: usize) -> usize {
        if n == 0 {
            0
        } else {
            (self.next() % n as u64) as usize
        }
    }
    pub fn range(&mut self, lo: usize, hi: usize) -> usize {
        lo + self.below(hi - lo + 1)
    }
    pub fn chance(&mut self, num: usize, den: usize) -> bool {
        self.below(den) < num
    }
    pub fn pick<'a, T>(&mut self, v: &'a [T]) -> &'a T {
        &v[self.below(v.len())]
    }
    pub fn bytes(&mut self, n: usize) -> Vec<u8> {
        (0..n).map(|_| self.next() as u8).collect()
    }
}

pub fn hex(data: &[u8]) -> String {
    if data.is_empty() {
        return "-".into();
    }
    let mut s = String::with_capacity(data.len() * 2);
    for b in data {
        let _ = write!(s, "{b:02x}");
    }
    s
}

pub fn unhex(s: &str) -> Vec<u8> {
    if s == "-" {
        return vec![];
    }
    let b = s.as_bytes();
    (0..b.len() / 2)
        .map(|i| {
            let h = (b[2 * i] as char).to_digit(16).unwrap_or(0) as u8;
            let l = (b[2 * i + 1] as char).to_digit(16).unwrap_or(0) as u8;
            h * 16 + l
        })
        .collect()
}

/// JSON string literal (lossy for non-UTF-8).
pub fn jstr(s: &str) -> String {
    let mut o = String::from("\"");
    for c in s.chars() {
        match c {
            '"' => o.push_str("\\\""),
            '\\' => o.push_str("\\\\"),
            '\n' => o.push_str("\\n"),
            '\r' => o.push_str("\\r"),
            '\t' => o.push_str("\\t"),
            c if (c as u32) < 0x20 => {
                let _ = write!(o, "\\u{:04x}", c as u32);
            }
            c => o.push(c),
        }
    }
    o.push('"');
    o
}

pub fn jbytes(b: &[u8]) -> String {
    jstr(&String::from_utf8_lossy(b))
}

/// The set of non-ASCII scalars in `src` that `char::escape_debug` escapes,
/// as the comma separated hex list the Lean driver expects (`-` if none).
pub fn uni_esc_set(src: &[u8]) -> String {
    let mut v: Vec<u32> = String::from_utf8_lossy(src)
        .chars()
        .filter(|c| !c.is_ascii() && c.escape_debug().len() != 1)
        .map(|c| c as u32)
        .collect();
    v.sort_unstable();
    v.dedup();
    if v.is_empty() {
        "-".into()
    } else {
        v.iter()
            .map(|c| format!("{c:x}"))
            .collect::<Vec<_>>()
            .join(",")
    }
}

/// Run `f`, turning a panic into `Err(message)`.
pub fn catch<T>(f: impl FnOnce() -> T + std::panic::UnwindSafe) -> Result<T, String> {
    std::panic::catch_unwind(f).map_err(|e| {
        if let Some(s) = e.downcast_ref::<&str>() {
            (*s).to_string()
        } else if let Some(s) = e.downcast_ref::<String>() {
            s.clone()
        } else {
            "panic".to_string()
        }
    })
}

/// A worker thread that evaluates `f` with a time limit per call (C11: "compilation terminates").
/// A call that exceeds the limit is abandoned (the thread keeps spinning until the process exits)
/// and a fresh worker serves the next call.
pub struct Timed<I: Send + 'static, O: Send + 'static> {
    f: std::sync::Arc<dyn Fn(I) -> O + Send + Sync>,
    chan: Option<(std::sync::mpsc::Sender<I>, std::sync::mpsc::Receiver<Result<O, String>>)>,
    pub timeouts: usize,
}
impl<I: Send + 'static, O: Send + 'static> Timed<I, O> {
    pub fn new(f: impl Fn(I) -> O + Send + Sync + 'static) -> Self {
        Timed { f: std::sync::Arc::new(f), chan: None, timeouts: 0 }
    }
    /// `None` = no answer within `limit`
    pub fn call(&mut self, input: I, limit: std::time::Duration) -> Option<Result<O, String>> {
        if self.chan.is_none() {
            let (tx, rx_in) = std::sync::mpsc::channel::<I>();
            let (tx_out, rx) = std::sync::mpsc::channel();
            let f = self.f.clone();
            std::thread::Builder::new()
                .stack_size(64 << 20)
                .spawn(move || {
                    while let Ok(i) = rx_in.recv() {
                        let f = f.clone();
                        let r = catch(std::panic::AssertUnwindSafe(move || f(i)));
                        if tx_out.send(r).is_err() {
                            break;
                        }
                    }
                })
                .expect("spawn worker");
            self.chan = Some((tx, rx));
        }
        let (tx, rx) = self.chan.as_ref().unwrap();
        tx.send(input).ok()?;
        match rx.recv_timeout(limit) {
            Ok(r) => Some(r),
            Err(_) => {
                self.timeouts += 1;
                self.chan = None;
                None
            }
        }
    }
}

pub struct Counter(pub std::collections::BTreeMap<String, u64>);
impl Counter {
    pub fn new() -> Self {
        Counter(Default::default())
    }
    pub fn hit(&mut self, k: &str) {
        *self.0.entry(k.to_string()).or_insert(0) += 1;
    }
    pub fn add(&mut self, k: &str, n: u64) {
        *self.0.entry(k.to_string()).or_insert(0) += n;
    }
    pub fn json(&self) -> String {
        let v: Vec<String> = self
            .0
            .iter()
            .map(|(k, v)| format!("{}:{}", jstr(k), v))
            .collect();
        format!("{{{}}}", v.join(","))
    }
}
