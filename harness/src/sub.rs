//! Suite `sub`: named sub-parsers (expression, spacelike, comment, quoted_string, rust_comment,
//! type_expression, formal_argument, for_variable, loop_expression, logic_expression, …)
//! on inputs from the documented expression grammar crossed with every follower class,
//! plus near-misses.
use crate::util::*;
use std::io::Write;

#[derive(Clone)]
struct Case {
    which: &'static str,
    input: Vec<u8>,
    /// documented extent of the fragment: number of bytes that must be consumed
    extent: Option<usize>,
    class: String,
}

const NAMES: &[&str] = &["a", "foo", "_x", "Bar9", "r#type", "self", "x_y_z"];

fn string_lit(r: &mut Rng) -> String {
    let pieces: &[&str] = &[
        "a", " ", "hello", "\\\"", "\\\\", "\\n", "\\r", "\\t", "\\0", "\\'", "\\x41", "\\u{41}", ")", "]", "}", "(", "[", "{", "/*",
        "*/", "//", "@", "é", "'", "{}", "{:?}", ",", ";",
    ];
    let mut s = String::from("\"");
    for _ in 0..r.below(5) {
        s.push_str(*r.pick(pieces));
    }
    s.push('"');
    s
}

fn block_comment(r: &mut Rng) -> String {
    let pieces: &[&str] = &[" c ", ")", "]", "}", "(", "\"", "*", "**", " * ", "/", "@", "é", "'"];
    let mut s = String::from("/*");
    for _ in 0..r.below(4) {
        s.push_str(*r.pick(pieces));
    }
    // a comment body must not contain "*/"; pieces cannot form it except "*" followed by "/"
    let s2 = s.replace("*/", "* /");
    let mut s = s2;
    // the part after the opening must not end in '/' preceded by '*' once "*/" is appended: fine
    s.push_str("*/");
    s
}

fn group_inner(r: &mut Rng, depth: usize, close: char) -> String {
    let plains: &[&str] = &["a", " ", ", ", "b + c", "x - 1", "|y| y", "1", "&z", "=> ", "; ", ": T", "'c'", "#", "..", "!", "?", "<", ">"];
    let mut s = String::new();
    for _ in 0..r.below(5) {
        match r.below(if depth == 0 { 5 } else { 9 }) {
            0 | 1 => s.push_str(*r.pick(plains)),
            2 => s.push_str(&string_lit(r)),
            3 => s.push_str(&block_comment(r)),
            4 => {
                // division: `/` not followed by `*`; what follows may be a delimiter or quote
                s.push_str(*r.pick(&["a / b", "a /b", "x/ 2", "a /(b+1)", "a /[1][0]", "a /\"x\".len()", "1/2", "a / /* c */ b"]));
            }
            5 | 6 => {
                s.push('(');
                s.push_str(&group_inner(r, depth - 1, ')'));
                s.push(')');
            }
            7 => {
                s.push('[');
                s.push_str(&group_inner(r, depth - 1, ']'));
                s.push(']');
            }
            _ => {
                // braces inside brackets are not tracked by the bracket scanner (they are
                // plain bytes there), so only generate balanced ones
                s.push('{');
                s.push_str(&group_inner(r, depth - 1, '}'));
                s.push('}');
            }
        }
    }
    let _ = close;
    s
}

/// a documented `@expression`
pub fn dexpr(r: &mut Rng, depth: usize, allow_prefix: bool) -> String {
    let mut s = String::new();
    if allow_prefix {
        match r.below(8) {
            0 => s.push('&'),
            1 => s.push('*'),
            _ => {}
        }
    }
    match r.below(if depth == 0 { 3 } else { 6 }) {
        0 | 1 => s.push_str(*r.pick(&NAMES[..4])),
        2 => s.push_str(*r.pick(&["0", "42", "007"])),
        3 => s.push_str(&string_lit(r)),
        4 => {
            s.push('(');
            s.push_str(&group_inner(r, depth - 1, ')'));
            s.push(')');
        }
        _ => {
            s.push('[');
            s.push_str(&group_inner(r, depth - 1, ']'));
            s.push(']');
        }
    }
    let n = r.below(4);
    for _ in 0..n {
        match r.below(if depth == 0 { 2 } else { 8 }) {
            0 => {
                s.push('.');
                s.push_str(&dexpr(r, depth.saturating_sub(1), false));
                // `.e` takes a whole expression, which swallows the rest of the chain
                return s;
            }
            1 => {
                s.push_str("::");
                s.push_str(&dexpr(r, depth.saturating_sub(1), false));
                return s;
            }
            2 | 3 => {
                s.push('(');
                s.push_str(&group_inner(r, depth - 1, ')'));
                s.push(')');
            }
            4 => {
                s.push('[');
                s.push_str(&group_inner(r, depth - 1, ']'));
                s.push(']');
            }
            5 => {
                s.push('{');
                s.push_str(&group_inner(r, depth - 1, '}'));
                s.push('}');
            }
            6 => {
                s.push_str("!(");
                s.push_str(&group_inner(r, depth - 1, ')'));
                s.push(')');
            }
            _ => {
                s.push_str("![");
                s.push_str(&group_inner(r, depth - 1, ']'));
                s.push(']');
            }
        }
    }
    s
}

pub const FOLLOWERS: &[(&str, &str)] = &[
    ("space", " tail"),
    ("lt", "<b>"),
    ("dot-nonident", ". Next"),
    ("dot-eof", "."),
    ("dot-paren", ".)"),
    ("at", "@b"),
    ("at-dot", ".@a"),
    ("comma", ", x"),
    ("rparen", ")"),
    ("rbrace", "}"),
    ("eof", ""),
    ("newline", "\nx"),
    ("semicolon", ";"),
    ("quote", "\" x"),
    ("bang", "! x"),
    ("colon", ": x"),
    ("slash", "/x"),
    ("nonascii", "é"),
    // white space ends the expression whatever comes after it
    ("space-dot-ident", " .len()"),
    ("newline-dot-ident", "\n  .pow(2)"),
    ("tab-dot-ident", "\t.x"),
    ("space-colons", " ::x"),
    ("space-paren", " (x)"),
    ("space-bracket", " [0]"),
    ("space-brace", " {x}"),
    ("space-bang", " !(x)"),
    ("crlf-dot", "\r\n.x"),
    // two dots are no member access: a range is not part of an `@expression`
    ("dotdot-ident", "..last"),
    ("dotdot-eq", "..=9"),
    ("dotdot-paren", "..(more)"),
    ("dotdot-space", ".. x"),
    ("ellipsis-ident", "...b"),
];

fn gen_cases(args: &crate::Args) -> Vec<Case> {
    let mut out = Vec::new();
    for c in crate::corpus::load("sub-expression") {
        out.push(Case { which: "expression", input: c, extent: None, class: "corpus".into() });
    }
    let mut r = Rng::new(args.seed, "sub");
    for i in 0..args.n {
        let e = dexpr(&mut r, 3, true);
        // `*` directly after `@` opens a comment; at sub-parser level `*x` is a plain prefix
        let (fname, f) = FOLLOWERS[i % FOLLOWERS.len()];
        let mut inp = e.clone().into_bytes();
        inp.extend_from_slice(f.as_bytes());
        out.push(Case { which: "expression", input: inp, extent: Some(e.len()), class: format!("dexpr.{fname}") });
    }
    // the paren arm: `@( .. )` ends at its matching parenthesis
    for i in 0..args.n / 4 {
        let inner = group_inner(&mut r, 3, ')');
        let (fname, f) = FOLLOWERS[i % FOLLOWERS.len()];
        let mut inp = inner.clone().into_bytes();
        inp.push(b')');
        inp.extend_from_slice(f.as_bytes());
        inp.extend_from_slice(b".len()");
        out.push(Case { which: "expr_inside_parens", input: inp, extent: Some(inner.len()), class: format!("paren.{fname}") });
    }
    // string literals and comments on their own
    for _ in 0..args.n / 8 {
        let s = string_lit(&mut r);
        let mut inp = s.clone().into_bytes();
        inp.extend_from_slice(b" rest\"");
        out.push(Case { which: "quoted_string", input: inp, extent: Some(s.len()), class: "string".into() });
        let c = block_comment(&mut r);
        let mut inp = c.clone().into_bytes();
        inp.extend_from_slice(b" rest */");
        out.push(Case { which: "rust_comment", input: inp, extent: Some(c.len()), class: "comment".into() });
    }
    // near misses and arbitrary token strings through every sub-parser (correspondence only)
    let parsers: &[&str] = &[
        "expression", "spacelike", "comment", "quoted_string", "rust_comment", "rust_name", "expr_in_braces", "expr_inside_parens",
        "comma_expressions", "type_expression", "formal_argument", "for_variable", "loop_expression", "logic_expression", "cond_expression",
    ];
    let toks: &[&str] = &[
        "a", "b1", "_", "(", ")", "[", "]", "{", "}", "\"", "\\", "\\\"", "/", "*", "/*", "*/", ".", "::", "!", "&", ",", " ", "\n", "@", "@*", "*@",
        "'a", "<", ">", "=", "==", "!=", "&&", "||", "..", "..=", "in", "let", "impl", "dyn", ":", "0", "é", "\u{ff}", "=>", "-",
    ];
    for _ in 0..args.n {
        let which = *r.pick(parsers);
        let mut inp = Vec::new();
        if r.chance(1, 2) {
            inp.extend_from_slice(dexpr(&mut r, 2, true).as_bytes());
        }
        for _ in 0..r.below(6) {
            let t = *r.pick(toks);
            if t == "\u{ff}" {
                inp.push(0xff);
            } else {
                inp.extend_from_slice(t.as_bytes());
            }
        }
        out.push(Case { which, input: inp, extent: None, class: format!("tokens.{which}") });
    }
    // typed fragments used by declarations and directives
    let types: &[&str] = &[
        "&str", "i32", "&'a str", "&[u8]", "Vec<String>", "&[(i32, &str)]", "Option<&T>", "(A, B,)", "HashMap<K, V,>", "impl Display",
        "&dyn ToHtml", "&'_ Foo<'a, T>", "Content", "&mut W", "[T; 3]", "a::B", "fn(A) -> B", "&'static [&'static str]", "Box<dyn Fn()>",
    ];
    for t in types {
        for f in [",", ")", " )", ", b: T"] {
            let mut inp = t.as_bytes().to_vec();
            inp.extend_from_slice(f.as_bytes());
            out.push(Case { which: "type_expression", input: inp.clone(), extent: None, class: "types".into() });
            let mut fa = b"arg: ".to_vec();
            fa.extend(inp);
            out.push(Case { which: "formal_argument", input: fa, extent: None, class: "types".into() });
        }
    }
    out
}

pub fn run(args: &crate::Args) {
    let mut cases = gen_cases(args);
    // the parsers are functions of their input: every case with a documented extent is presented a second
    // time at the end, after the malformed stream, and must get the same (documented) answer — state kept
    // between parses (a counter, a cache) would show here
    let again: Vec<Case> = cases.iter().filter(|c| c.extent.is_some()).map(|c| Case { class: format!("again.{}", c.class), ..c.clone() }).collect();
    cases.extend(again);
    let dir = &args.out;
    let mut req = std::io::BufWriter::new(std::fs::File::create(format!("{dir}/req.txt")).unwrap());
    let mut imp = std::io::BufWriter::new(std::fs::File::create(format!("{dir}/impl.txt")).unwrap());
    let mut orc = std::io::BufWriter::new(std::fs::File::create(format!("{dir}/oracle.jsonl")).unwrap());
    let mut stats = Counter::new();
    let mut distinct = std::collections::HashSet::new();
    for (i, c) in cases.iter().enumerate() {
        writeln!(req, "sub {} {}", c.which, hex(&c.input)).unwrap();
        stats.hit(&format!("class.{}", c.class));
        let which = c.which;
        let input = c.input.clone();
        let ans = match catch(move || ructe::verif_hooks::parse_with(which, &input)) {
            Ok(a) => a,
            Err(msg) => {
                writeln!(
                    orc,
                    "{{\"tags\":[\"C11\",\"C05\"],\"kind\":\"panic\",\"case\":{i},\"parser\":{},\"src_hex\":{},\"src\":{},\"detail\":{}}}",
                    jstr(c.which),
                    jstr(&hex(&c.input)),
                    jbytes(&c.input),
                    jstr(&msg)
                )
                .unwrap();
                "panic".to_string()
            }
        };
        writeln!(imp, "{ans}").unwrap();
        stats.hit(if ans.starts_with("ok") { "result.ok" } else { "result.err" });
        if let Some(n) = c.extent {
            stats.hit("extent.checked");
            let want = format!("ok {} {}", n, hex(&c.input[..n]));
            if distinct.insert(c.input[..n].to_vec()) {
                stats.hit("distinct.fragments");
            }
            let good = if c.which == "rust_comment" { ans.starts_with(&format!("ok {n} ")) } else { ans == want };
            if !good {
                writeln!(
                    orc,
                    "{{\"tags\":[\"C05\"],\"kind\":\"wrong-extent\",\"case\":{i},\"parser\":{},\"src_hex\":{},\"src\":{},\"detail\":{}}}",
                    jstr(c.which),
                    jstr(&hex(&c.input)),
                    jbytes(&c.input),
                    jstr(&format!(
                        "documented fragment is the first {n} bytes {:?}; parser answered {}",
                        String::from_utf8_lossy(&c.input[..n]),
                        match ans.split(' ').collect::<Vec<_>>()[..] {
                            ["ok", k, v] => format!("{k} bytes {:?}", String::from_utf8_lossy(&unhex(v))),
                            _ => ans.clone(),
                        }
                    ))
                )
                .unwrap();
            }
        }
    }
    stats.add("cases", cases.len() as u64);
    std::fs::write(format!("{dir}/stats.json"), stats.json()).unwrap();
}
