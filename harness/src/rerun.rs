//! Suite `rerun` (C17, second half of the statement): after a single edit of the input tree, is the
//! build script run again whenever its result would change?
//!
//! For a scenario (input tree + build script) the real ructe is run (child process, as in `script`),
//! then one edit at a time is applied — modify / delete / add a file in an input directory, in a
//! sub-directory, in a new sub-directory, in an unrelated place, delete a directory, break a template,
//! edit an imported Sass partial — and the script is run again into the same OUT_DIR (as cargo does).
//!
//! * static oracle (`stale-after-edit`): if the result changed (other files, other bytes, other lines)
//!   something must have changed at (or under) a path of a `cargo:rerun-if-changed`
//!   line of the last run cargo would have executed.  This is `C17Rerun.change_triggers_rerun` evaluated
//!   on the implementation.
//! * cargo oracle (`cargo-did-not-rerun`, option `--cargo <n>`): the same scenario inside a real cargo
//!   package whose build script hands the calls to the real ructe (this harness as a child process);
//!   after each edit `cargo build --offline` decides by itself whether to run the script again, and it
//!   must whenever the result would change.
use crate::script::*;
use crate::util::*;
use std::collections::{BTreeMap, BTreeSet};
use std::io::Write;
use std::path::{Path, PathBuf};
use std::time::Duration;

#[derive(Clone, Debug)]
pub enum Edit {
    Modify(String),
    Delete(String),
    Add(String, Vec<u8>),
    RemoveDir(String),
}

impl Edit {
    fn path(&self) -> &str {
        match self {
            Edit::Modify(p) | Edit::Delete(p) | Edit::Add(p, _) | Edit::RemoveDir(p) => p,
        }
    }
}

fn walk(base: &Path, d: &Path, files: &mut Vec<String>, dirs: &mut Vec<String>, skip: &dyn Fn(&str) -> bool) {
    let Ok(rd) = std::fs::read_dir(d) else { return };
    let mut v: Vec<PathBuf> = rd.flatten().map(|e| e.path()).collect();
    v.sort();
    for p in v {
        let rel = p.strip_prefix(base).unwrap().display().to_string();
        if skip(&rel) {
            continue;
        }
        if p.is_dir() {
            dirs.push(rel);
            walk(base, &p, files, dirs, skip);
        } else {
            files.push(rel);
        }
    }
}

fn is_link_target(rel: &str) -> bool {
    ["shared", "store", "linktargets", "realdeep"].iter().any(|d| rel == *d || rel.starts_with(&format!("{d}/")))
}

const NEW_NAMES: &[&str] = &["extra.css", "new.rs.html", "zz.rs.svg", "_new.scss", "added.js", "README", "n1.png", "late.rs.xml"];

fn choose_edit(r: &mut Rng, indir: &Path, skip: &dyn Fn(&str) -> bool) -> Edit {
    let mut files = Vec::new();
    let mut dirs = Vec::new();
    walk(indir, indir, &mut files, &mut dirs, skip);
    for _ in 0..8 {
        match r.below(8) {
            0 | 1 if !files.is_empty() => return Edit::Modify(r.pick(&files).clone()),
            2 if !files.is_empty() => {
                // (the target of a symbolic link is edited but not deleted: a template that is a dangling link makes
                // compile_templates return Err half-way, which the model does not describe)
                let f = r.pick(&files).clone();
                if !is_link_target(&f) {
                    return Edit::Delete(f);
                }
            }
            3 | 4 if !dirs.is_empty() => {
                let d = r.pick(&dirs).clone();
                let n = *r.pick(NEW_NAMES);
                let c = if n.contains(".rs.") { b"@()\nadded later\n".to_vec() } else if n.ends_with(".scss") { b"$late: 1;\n".to_vec() } else { r.bytes(9) };
                if !Path::new(&format!("{}/{d}/{n}", indir.display())).exists() {
                    return Edit::Add(format!("{d}/{n}"), c);
                }
            }
            5 if !dirs.is_empty() => {
                let d = r.pick(&dirs).clone();
                let n = *r.pick(NEW_NAMES);
                let c = if n.contains(".rs.") { b"@()\nin a new directory\n".to_vec() } else { r.bytes(5) };
                let sub = *r.pick(&["newdir", "more", "z_sub"]);
                if !Path::new(&format!("{}/{d}/{sub}", indir.display())).exists() {
                    return Edit::Add(format!("{d}/{sub}/{n}"), c);
                }
            }
            6 => return Edit::Add(format!("unrelated{}/{}", r.below(3), r.pick(NEW_NAMES)), r.bytes(4)),
            7 if dirs.len() > 1 => {
                let d = r.pick(&dirs).clone();
                if d.contains('/') && !is_link_target(&d) {
                    return Edit::RemoveDir(d);
                }
            }
            _ => {}
        }
    }
    Edit::Add("unrelated/x.css".into(), vec![1])
}

fn apply_edit(indir: &Path, e: &Edit, r: &mut Rng) {
    match e {
        Edit::Modify(rel) => {
            let p = indir.join(rel);
            let mut c = std::fs::read(&p).unwrap_or_default();
            if rel.contains(".rs.") && r.chance(1, 3) {
                c = b"@(\nno longer a template".to_vec();
            } else if rel.contains(".rs.") {
                c.extend_from_slice(b"<!-- edited -->\n");
            } else if rel.ends_with(".scss") {
                c.extend_from_slice(b"\n.edited { e: f }\n");
            } else if c.is_empty() {
                c.push(7);
            } else {
                let i = r.below(c.len());
                c[i] = c[i].wrapping_add(1);
            }
            let _ = std::fs::write(p, c);
        }
        Edit::Delete(rel) => {
            let _ = std::fs::remove_file(indir.join(rel));
        }
        Edit::Add(rel, c) => {
            let p = indir.join(rel);
            if let Some(d) = p.parent() {
                let _ = std::fs::create_dir_all(d);
            }
            let _ = std::fs::write(p, c);
        }
        Edit::RemoveDir(rel) => {
            let _ = std::fs::remove_dir_all(indir.join(rel));
        }
    }
}

/// what a run produced, with the location of OUT_DIR taken out
fn result_of(res: &RunResult, outdir: &Path) -> (BTreeMap<String, Vec<u8>>, Vec<String>) {
    let o = outdir.display().to_string();
    (res.after.iter().map(|(p, c)| (p.replacen(&o, "<OUT>", 1), c.clone())).collect(), res.stdout.clone())
}

/// what the operating system shows at a path, the way cargo looks at an announced path: the file's bytes, or
/// the whole subtree of a directory (names, kinds, bytes), or nothing.  This is `t q` of `C17Rerun`.
fn fingerprint(p: &Path) -> String {
    fn h(b: &[u8]) -> u64 {
        b.iter().fold(0xcbf29ce484222325u64, |a, x| (a ^ *x as u64).wrapping_mul(0x100000001b3))
    }
    match std::fs::metadata(p) {
        Err(_) => "missing".into(),
        Ok(m) if m.is_dir() => {
            let mut v: Vec<String> = std::fs::read_dir(p)
                .map(|rd| rd.flatten().map(|e| format!("{}={}", e.file_name().to_string_lossy(), fingerprint(&e.path()))).collect())
                .unwrap_or_default();
            v.sort();
            format!("dir[{}]", v.join(";"))
        }
        Ok(_) => match std::fs::read(p) {
            Ok(b) => format!("file:{}:{:x}", b.len(), h(&b)),
            Err(_) => "unreadable".into(),
        },
    }
}

fn fingerprints(lines: &BTreeSet<String>) -> Vec<String> {
    lines.iter().map(|l| fingerprint(Path::new(l))).collect()
}

fn lines_of(stdout: &[String]) -> BTreeSet<String> {
    stdout.iter().filter_map(|l| l.strip_prefix("cargo:rerun-if-changed=").map(|s| s.to_string())).collect()
}

fn fresh(dir: &Path) {
    let _ = std::fs::remove_dir_all(dir);
    std::fs::create_dir_all(dir).unwrap();
}

const BUILD_RS: &str = r#"// build script of the scratch package: hands the calls to the real ructe (harness child process)
use std::io::Write;
fn hex(b: &[u8]) -> String { b.iter().map(|x| format!("{x:02x}")).collect() }
fn main() {
    let base = std::env::var("CARGO_MANIFEST_DIR").unwrap();
    let out = std::env::var("OUT_DIR").unwrap();
    let mut f = std::fs::OpenOptions::new().create(true).append(true).open(format!("{base}/.verif/runs")).unwrap();
    writeln!(f, "run").unwrap();
    // the usual first line of a build script; it also switches off cargo's fallback of watching every file of the package
    println!("cargo:rerun-if-changed=build.rs");
    let ops = std::fs::read_to_string(format!("{base}/.verif/ops")).unwrap();
    let script = format!("{}\n{}\n{}\n{}", hex(out.as_bytes()), hex(base.as_bytes()), hex(format!("{out}/names.txt").as_bytes()), ops);
    let file = format!("{out}/script.txt");
    std::fs::write(&file, script).unwrap();
    let st = std::process::Command::new("@HARNESS@").arg("runscript").arg(&file).status().unwrap();
    assert!(st.success());
}
"#;

fn cargo_runs(indir: &Path) -> usize {
    std::fs::read_to_string(indir.join(".verif/runs")).map(|s| s.lines().count()).unwrap_or(0)
}

fn cargo_build(indir: &Path, target: &Path) -> Result<(), String> {
    let o = std::process::Command::new("cargo")
        .args(["build", "--offline", "-q"])
        .current_dir(indir)
        .env("CARGO_TARGET_DIR", target)
        .env("CARGO_NET_OFFLINE", "true")
        .env_remove("OUT_DIR")
        .output()
        .map_err(|e| e.to_string())?;
    if o.status.success() {
        Ok(())
    } else {
        Err(String::from_utf8_lossy(&o.stderr).chars().take(1500).collect())
    }
}

/// ops lines for the child, with paths as `run_once` passes them for run number 0
fn child_ops(indir: &Path, script: &[SOp], spell: usize) -> String {
    let abs = |rel: &str| if rel.starts_with('/') { rel.to_string() } else { indir.join(rel).display().to_string() };
    let first_static = script.iter().position(|o| !matches!(o, SOp::T(_))).unwrap_or(script.len());
    let mut v: Vec<&SOp> = script[..first_static].iter().collect();
    v.extend(script[first_static..].iter().filter(|o| !matches!(o, SOp::T(_))));
    v.extend(script[first_static..].iter().filter(|o| matches!(o, SOp::T(_))));
    let mut out = String::new();
    for (i, op) in v.iter().enumerate() {
        let pass = |rel: &str| match (i + spell) % 3 { 0 => abs(rel), 1 => rel.to_string(), _ => format!("./{rel}") };
        let l = match op {
            SOp::T(d) => format!("T {}", hex(abs(d).as_bytes())),
            SOp::F(p) => format!("F {}", hex(pass(p).as_bytes())),
            SOp::D(d) => format!("D {}", hex(pass(d).as_bytes())),
            SOp::A(p, u) => format!("A {} {}", hex(pass(p).as_bytes()), hex(u.as_bytes())),
            SOp::S(d, to) => format!("S {} {}", hex(pass(d).as_bytes()), hex(to.as_bytes())),
            SOp::X(p, _) => format!("X {}", hex(pass(p).as_bytes())),
            SOp::P => "P".to_string(),
            SOp::B(p, data) => format!("B {} {}", hex(pass(p).as_bytes()), hex(data)),
        };
        out.push_str(&l);
        out.push('\n');
    }
    out
}

pub fn run(args: &crate::Args) {
    let exe = std::env::current_exe().unwrap();
    let dir = &args.out;
    let mut ncargo: usize = 0;
    let mut it = args.rest.iter();
    while let Some(a) = it.next() {
        if a == "--cargo" {
            ncargo = it.next().and_then(|v| v.parse().ok()).unwrap_or(0);
        }
    }
    let scs = scenarios(args);
    let mut req = std::io::BufWriter::new(std::fs::File::create(format!("{dir}/req.txt")).unwrap());
    let mut imp = std::io::BufWriter::new(std::fs::File::create(format!("{dir}/impl.txt")).unwrap());
    let mut orc = std::io::BufWriter::new(std::fs::File::create(format!("{dir}/oracle.jsonl")).unwrap());
    let mut stats = Counter::new();
    let repo = std::env::var("VERIF_REPO").unwrap_or_else(|_| "/repo".into());
    let utils = std::fs::read(format!("{repo}/src/templates/utils.rs")).unwrap_or_default();
    writeln!(req, "setutils {}", hex(&utils)).unwrap();
    writeln!(imp, "ok").unwrap();
    let mut r = Rng::new(args.seed, "rerun-edits");
    let target = PathBuf::from(format!("/dev/shm/ructe-verif-rr-target.{}", std::process::id()));
    let mut infra: Option<String> = None;
    let mut distinct = BTreeSet::new();
    for (si, sc) in scs.iter().enumerate() {
        stats.hit(&format!("kind.{}", sc.kind));
        let base = if si % 5 == 3 { "/var/tmp" } else { "/dev/shm" };
        let root = PathBuf::from(format!("{base}/ructe-verif-rr.{}.{si}", std::process::id()));
        fresh(&root);
        let indir = root.join("in");
        std::fs::create_dir_all(&indir).unwrap();
        let outdir = root.join("out");
        for st in &sc.steps {
            if !matches!(st, Step::Run | Step::OutWrite(..) | Step::OutRemove(..) | Step::WriteSameStamp(..)) {
                apply(&root, &outdir, st);
            }
        }
        let with_cargo = si < ncargo && infra.is_none();
        let skip = |rel: &str| rel == ".verif" || rel == "Cargo.toml" || rel == "Cargo.lock" || rel == "build.rs" || rel == "src" || rel.starts_with("src/") || rel.starts_with(".verif/");
        let mut fail = |kind: &str, detail: String, orc: &mut std::io::BufWriter<std::fs::File>| {
            writeln!(
                orc,
                "{{\"tags\":[\"C17\"],\"kind\":{},\"case\":{si},\"scenario\":{},\"detail\":{}}}",
                jstr(kind),
                jstr(&format!("{:?} script {:?}", sc.steps, sc.script).chars().take(3000).collect::<String>()),
                jstr(&detail)
            )
            .unwrap();
        };
        if with_cargo {
            // the input directory doubles as a cargo package (CARGO_MANIFEST_DIR = the base of relative paths)
            std::fs::create_dir_all(indir.join("src")).unwrap();
            std::fs::create_dir_all(indir.join(".verif")).unwrap();
            std::fs::write(indir.join("Cargo.toml"), format!("[package]\nname = \"rr{si}\"\nversion = \"0.1.0\"\nedition = \"2021\"\nbuild = \"build.rs\"\n\n[workspace]\n")).unwrap();
            std::fs::write(indir.join("src/main.rs"), "fn main() {}\n").unwrap();
            std::fs::write(indir.join("build.rs"), BUILD_RS.replace("@HARNESS@", &exe.display().to_string())).unwrap();
            std::fs::write(indir.join(".verif/ops"), child_ops(&indir, &sc.script, si)).unwrap();
        }
        // ---- the run before any edit
        fresh(&outdir);
        let mut k = 0;
        let res = run_once(&exe, &root, &outdir, &sc.script, k, si);
        writeln!(req, "{}", res.req).unwrap();
        writeln!(imp, "{}", res.answer).unwrap();
        stats.hit("runs");
        let mut last = result_of(&res, &outdir); // result of the last run cargo executed
        let mut last_lines = lines_of(&res.stdout);
        let mut last_prints = fingerprints(&last_lines); // the announced paths as that run left them
        let mut cargo_count = 0;
        // cargo runs a build script again on every build while an announced path does not exist (a call on a directory
        // that is not there, a link to nothing under a template name): there is no decision to compare with
        let with_cargo = with_cargo
            && last_lines.iter().all(|p| {
                let q = Path::new(p);
                if q.is_absolute() { q.exists() } else { indir.join(q).exists() }
            });
        if !with_cargo && si < ncargo {
            stats.hit("cargo.skipped-missing-announced-path");
        }
        if with_cargo {
            match cargo_build(&indir, &target) {
                Ok(()) => {
                    cargo_count = cargo_runs(&indir);
                    if cargo_count != 1 {
                        infra = Some(format!("first cargo build ran the build script {cargo_count} times"));
                    }
                }
                Err(e) => infra = Some(format!("cargo build of the scratch package failed: {e}")),
            }
            // an immediate second build must not run it again (otherwise the decision below means nothing)
            if infra.is_none() {
                let _ = cargo_build(&indir, &target);
                if cargo_runs(&indir) != cargo_count {
                    infra = Some("cargo ran the build script again without any edit".into());
                }
            }
        }
        let nedits = r.range(2, 4);
        for _ in 0..nedits {
            let e = choose_edit(&mut r, &indir, &skip);
            // cargo compares modification times: stay clear of the clock's granularity
            std::thread::sleep(Duration::from_millis(25));
            apply_edit(&indir, &e, &mut r);
            stats.hit(&format!("edit.{}", format!("{e:?}").split('(').next().unwrap_or("?")));
            k += 1;
            // OUT_DIR is kept between the runs, as cargo keeps it: whatever a run leaves there (generated files,
            // anything else it may write) is what the next run finds
            let res = run_once(&exe, &root, &outdir, &sc.script, k, si);
            writeln!(req, "{}", res.req).unwrap();
            writeln!(imp, "{}", res.answer).unwrap();
            stats.hit("runs");
            let now = result_of(&res, &outdir);
            let changed = now != last;
            let edited = indir.join(e.path()).display().to_string();
            // cargo's rule: the file at an announced path, or something under an announced directory, changed
            let triggered = fingerprints(&last_lines) != last_prints;
            stats.hit(if changed { "edits.result_changed" } else { "edits.result_same" });
            stats.hit(if triggered { "edits.covered" } else { "edits.not_covered" });
            distinct.insert(format!("{:?}{}{}", e, changed, triggered).len() as u64 * 7919 + si as u64);
            if changed && !triggered {
                let what = if now.1 != last.1 { "printed lines differ".to_string() } else {
                    let diff: Vec<&String> = now.0.keys().chain(last.0.keys()).filter(|p| now.0.get(*p) != last.0.get(*p)).collect();
                    format!("files differ: {:?}", diff.iter().take(4).collect::<Vec<_>>())
                };
                fail("stale-after-edit", format!("edit {e:?}: a new run gives another result ({what}) but nothing changed at (or under) any path announced by the previous run, so cargo would not run the build script again; edited: {edited}; announced: {last_lines:?}"), &mut orc);
            }
            if with_cargo && infra.is_none() {
                match cargo_build(&indir, &target) {
                    Ok(()) => {
                        let c = cargo_runs(&indir);
                        let reran = c > cargo_count;
                        cargo_count = c;
                        stats.hit(if reran { "cargo.reran" } else { "cargo.kept" });
                        if changed && !reran {
                            fail("cargo-did-not-rerun", format!("edit {e:?}: the result of the build script changes but cargo build did not run it again; lines it was given: {last_lines:?}"), &mut orc);
                        }
                        if reran != triggered {
                            // cargo's decision and the model of its rule disagree: not a finding about ructe, but worth knowing
                            // (cargo also runs the script again whenever an announced path does not exist)
                            stats.hit(if reran { "cargo.reran_without_covered_edit" } else { "cargo.kept_despite_covered_edit" });
                        }
                        if reran {
                            last = now.clone();
                            last_lines = lines_of(&res.stdout);
                            last_prints = fingerprints(&last_lines);
                        }
                    }
                    Err(er) => infra = Some(format!("cargo build after {e:?} failed: {er}")),
                }
            } else if triggered {
                last = now;
                last_lines = lines_of(&res.stdout);
                last_prints = fingerprints(&last_lines);
            }
        }
        let _ = std::fs::remove_dir_all(&root);
    }
    let _ = std::fs::remove_dir_all(&target);
    if let Some(e) = infra {
        std::fs::write(format!("{dir}/infra.txt"), e).unwrap();
    }
    stats.add("cases", scs.len() as u64);
    stats.add("distinct.run_outputs", distinct.len() as u64);
    std::fs::write(format!("{dir}/stats.json"), stats.json()).unwrap();
}
