//! Correspondence harness: runs the real ructe (current working tree of /repo, feature
//! `verif-hooks`) on generated cases and writes request lines for the Lean driver, the
//! implementation's answers, and the failures of oracles evaluated on the implementation.
mod corpus;
mod e2e;
mod gen;
mod html;
mod mime;
mod parse;
mod rerun;
mod sass;
mod script;
mod sub;
mod util;

pub struct Args {
    pub suite: String,
    pub mix: String,
    pub n: usize,
    pub seed: u64,
    pub tier: String,
    pub out: String,
    pub rest: Vec<String>,
}

fn main() {
    // panics inside the code under test are caught per case; keep stderr quiet
    std::panic::set_hook(Box::new(|_| {}));
    let a: Vec<String> = std::env::args().collect();
    let mut args = Args {
        suite: a.get(1).cloned().unwrap_or_default(),
        mix: "all".into(),
        n: 1000,
        seed: 1,
        tier: "quick".into(),
        out: ".".into(),
        rest: vec![],
    };
    let mut i = 2;
    while i < a.len() {
        let v = a.get(i + 1).cloned().unwrap_or_default();
        match a[i].as_str() {
            "--mix" => args.mix = v,
            "--n" => args.n = v.parse().unwrap_or(1000),
            "--seed" => args.seed = v.parse().unwrap_or(1),
            "--tier" => args.tier = v,
            "--out" => args.out = v,
            other => {
                args.rest.push(other.to_string());
                i += 1;
                continue;
            }
        }
        i += 2;
    }
    if args.suite != "runscript" {
        std::fs::create_dir_all(&args.out).unwrap();
    }
    match args.suite.as_str() {
        "parse" => parse::run(&args),
        "html" => html::run(&args),
        "sub" => sub::run(&args),
        "e2e" => e2e::run(&args),
        "sass" => sass::run(&args),
        "mime" => mime::run(&args),
        "script" => script::run(&args),
        "rerun" => rerun::run(&args),
        "runscript" => script::child(&a[2]),
        s => {
            eprintln!("unknown suite {s}");
            std::process::exit(2);
        }
    }
}
