//! Suite `html`: the escaping writer, `Html`, `to_buffer`, `HtmlBuffer` of
//! `ructe::templates` (public API) against Display impls that replay a piece list and
//! sinks that replay a schedule.
use crate::util::*;
use ructe::templates::{Html, ToHtml};
use std::fmt;
use std::io::{self, Write};

#[derive(Clone, Copy, Debug, PartialEq)]
pub enum Resp {
    /// accept min(k, len) bytes, k >= 1
    Accept(usize),
    Zero,
    Interrupted,
    /// permanent failure
    Fail,
}

pub struct Sink {
    pub sched: Vec<Resp>,
    pub pos: usize,
    pub got: Vec<u8>,
    pub calls_after_fail: usize,
    pub failed: bool,
}

impl Sink {
    pub fn new(sched: Vec<Resp>) -> Sink {
        Sink { sched, pos: 0, got: vec![], calls_after_fail: 0, failed: false }
    }
}

impl Write for Sink {
    fn write(&mut self, data: &[u8]) -> io::Result<usize> {
        if self.failed {
            self.calls_after_fail += 1;
        }
        match self.sched.get(self.pos).copied() {
            None => {
                self.got.extend_from_slice(data);
                Ok(data.len())
            }
            Some(Resp::Accept(k)) => {
                self.pos += 1;
                let n = k.min(data.len());
                self.got.extend_from_slice(&data[..n]);
                Ok(n)
            }
            Some(Resp::Zero) => {
                self.pos += 1;
                Ok(0)
            }
            Some(Resp::Interrupted) => {
                self.pos += 1;
                Err(io::Error::new(io::ErrorKind::Interrupted, "interrupted"))
            }
            Some(Resp::Fail) => {
                self.failed = true;
                Err(io::Error::new(io::ErrorKind::Other, "injected failure"))
            }
        }
    }
    fn flush(&mut self) -> io::Result<()> {
        Ok(())
    }
}

/// A `Display` impl that hands its text to the formatter in the given pieces.  The second field
/// selects *how* a piece is handed over — a Display impl is free to use any of the formatter's
/// entry points: `write_str`, `write_char` (single-character pieces), `write!` with a `{}` argument,
/// `write_fmt` with a literal-free format — all of which must deliver the same text.
pub struct Pieces(pub Vec<String>, pub u8);
impl fmt::Display for Pieces {
    fn fmt(&self, f: &mut fmt::Formatter) -> fmt::Result {
        use fmt::Write;
        for (i, p) in self.0.iter().enumerate() {
            let mut cs = p.chars();
            let single = match (cs.next(), cs.next()) {
                (Some(c), None) => Some(c),
                _ => None,
            };
            match ((self.1 as usize + i) % 4, single) {
                (1, Some(c)) => f.write_char(c)?,
                (2, Some(c)) => write!(f, "{c}")?,
                (3, _) => write!(f, "{p}")?,
                (2, None) => f.write_fmt(format_args!("{}", p.as_str()))?,
                _ => f.write_str(p)?,
            }
        }
        Ok(())
    }
}

/// a user `ToHtml` impl that writes something and then reports an error
pub struct BadItem;
impl ToHtml for BadItem {
    fn to_html(&self, out: &mut dyn io::Write) -> io::Result<()> {
        out.write_all(b"<li>")?;
        Err(io::Error::new(io::ErrorKind::Other, "item failed"))
    }
}

/// counts how often its text is formatted: `to_html` and `to_buffer` render a value once
pub struct Counted<'a>(pub &'a Pieces, pub std::cell::Cell<usize>);
impl fmt::Display for Counted<'_> {
    fn fmt(&self, f: &mut fmt::Formatter) -> fmt::Result {
        self.1.set(self.1.get() + 1);
        fmt::Display::fmt(self.0, f)
    }
}

pub fn sched_str(s: &[Resp]) -> String {
    if s.is_empty() {
        return "-".into();
    }
    s.iter()
        .map(|r| match r {
            Resp::Accept(k) => format!("a{k}"),
            Resp::Zero => "z".into(),
            Resp::Interrupted => "i".into(),
            Resp::Fail => "f".into(),
        })
        .collect::<Vec<_>>()
        .join(",")
}

/// Independent reference escaper (the specification of C02).
pub fn escape_ref(s: &[u8]) -> Vec<u8> {
    let mut o = Vec::new();
    for &b in s {
        match b {
            b'<' => o.extend(b"&lt;"),
            b'>' => o.extend(b"&gt;"),
            b'&' => o.extend(b"&amp;"),
            b'"' => o.extend(b"&quot;"),
            b'\'' => o.extend(b"&#39;"),
            _ => o.push(b),
        }
    }
    o
}

/// HTML-decode the five character references (and nothing else).
pub fn unescape_ref(s: &[u8]) -> Option<Vec<u8>> {
    let mut o = Vec::new();
    let mut i = 0;
    while i < s.len() {
        match s[i] {
            b'<' | b'>' | b'"' | b'\'' => return None,
            b'&' => {
                let ents: [(&[u8], u8); 5] = [(b"&lt;", b'<'), (b"&gt;", b'>'), (b"&amp;", b'&'), (b"&quot;", b'"'), (b"&#39;", b'\'')];
                let mut hit = false;
                for (e, c) in ents {
                    if s[i..].starts_with(e) {
                        o.push(c);
                        i += e.len();
                        hit = true;
                        break;
                    }
                }
                if !hit {
                    return None;
                }
            }
            b => {
                o.push(b);
                i += 1;
            }
        }
    }
    Some(o)
}

struct Case {
    mode: &'static str,
    pieces: Vec<String>,
    sched: Vec<Resp>,
}

fn compositions(chars: &[char]) -> Vec<Vec<String>> {
    // all ways to cut the char sequence into non-empty consecutive pieces (+ variants with empty pieces)
    let n = chars.len();
    if n == 0 {
        return vec![vec![], vec![String::new()], vec![String::new(), String::new()]];
    }
    let mut out = Vec::new();
    for mask in 0..(1u32 << (n - 1)) {
        let mut cur = String::new();
        let mut v = Vec::new();
        for (i, c) in chars.iter().enumerate() {
            cur.push(*c);
            if i + 1 < n && mask & (1 << i) != 0 {
                v.push(std::mem::take(&mut cur));
            }
        }
        v.push(cur);
        out.push(v);
    }
    // one variant with empty pieces sprinkled in
    let mut v = out[out.len() - 1].clone();
    v.insert(0, String::new());
    v.push(String::new());
    out.push(v);
    out
}

fn all_scheds(alpha: &[Resp], maxlen: usize) -> Vec<Vec<Resp>> {
    let mut out = vec![vec![]];
    let mut frontier = vec![vec![]];
    for _ in 0..maxlen {
        let mut next = Vec::new();
        for s in &frontier {
            for a in alpha {
                let mut t: Vec<Resp> = s.clone();
                t.push(*a);
                next.push(t);
            }
        }
        out.extend(next.iter().cloned());
        frontier = next;
    }
    out
}

fn gen_cases(args: &crate::Args) -> Vec<Case> {
    let thorough = args.tier == "thorough";
    let alpha: Vec<char> = vec!['<', '>', '&', '"', '\'', 'a', 'é', ' ', '\u{13c}'];
    let maxlen = if thorough { 4 } else { 3 };
    let sched_alpha = [Resp::Accept(1), Resp::Accept(2), Resp::Accept(1 << 20), Resp::Interrupted];
    let scheds = all_scheds(&sched_alpha, if thorough { 4 } else { 3 });
    let mut out = Vec::new();
    // exhaustive part
    let mut strings: Vec<Vec<char>> = vec![vec![]];
    let mut frontier: Vec<Vec<char>> = vec![vec![]];
    for _ in 0..maxlen {
        let mut next = Vec::new();
        for s in &frontier {
            for a in &alpha {
                let mut t = s.clone();
                t.push(*a);
                next.push(t);
            }
        }
        strings.extend(next.iter().cloned());
        frontier = next;
    }
    for (si, s) in strings.iter().enumerate() {
        let comps = compositions(s);
        for (ci, c) in comps.iter().enumerate() {
            // all schedules for the finest and coarsest chunking, a rotating sample for the others
            for (k, sc) in scheds.iter().enumerate() {
                let full = ci == 0 || ci + 2 >= comps.len();
                if !full && (k + si + ci) % 7 != 0 {
                    continue;
                }
                out.push(Case { mode: "esc", pieces: c.clone(), sched: sc.clone() });
                if (k + si) % 5 == 0 {
                    out.push(Case { mode: "raw", pieces: c.clone(), sched: sc.clone() });
                }
                if (k + si) % 11 == 0 {
                    out.push(Case { mode: "buf", pieces: c.clone(), sched: sc.clone() });
                    out.push(Case { mode: "bufbuf", pieces: c.clone(), sched: sc.clone() });
                }
            }
        }
    }
    // systematic part: every byte that is close to a special (off by one, or one bit away) directly before and
    // after that special, at every offset of a 24-byte run — word-at-a-time or table-driven scans have their
    // corner cases here, not in three-character strings
    for sp in [b'<', b'>', b'&', b'"', b'\''] {
        let mut near: Vec<u8> = vec![sp.wrapping_sub(1), sp + 1, sp | 0x80];
        for bit in 0..7 {
            near.push(sp ^ (1 << bit));
        }
        for nb in near {
            if nb == 0 || nb >= 0x80 {
                continue;
            }
            for pos in 0..10usize {
                for order in 0..2 {
                    let mut t = vec![b'x'; 24];
                    let (a, b) = if order == 0 { (nb, sp) } else { (sp, nb) };
                    t[pos] = a;
                    t[pos + 1] = b;
                    let text = String::from_utf8(t).unwrap();
                    out.push(Case { mode: "esc", pieces: vec![text.clone()], sched: vec![] });
                    if pos % 3 == 0 {
                        out.push(Case { mode: "esc", pieces: vec![text[..5].to_string(), text[5..].to_string()], sched: vec![Resp::Accept(3), Resp::Interrupted, Resp::Accept(1 << 20)] });
                        out.push(Case { mode: "buf", pieces: vec![text.clone()], sched: vec![] });
                    }
                }
            }
        }
    }
    // random part: longer strings, failures, zero-length accepts
    let mut r = Rng::new(args.seed, "html");
    let pool: Vec<&str> = vec!["<", ">", "&", "\"", "'", "a", "bc", "é", "日本", " ", "&amp;", "&lt;", "<script>", "\u{0}", "\n", "😀", "xyz0123456789",
        // scalars whose low byte is one of the five specials (U+2022, U+0126, U+0127, U+013C, U+013E, U+1F33C)
        "\u{2022}", "\u{126}", "\u{127}", "\u{13c}", "\u{13e}", "\u{1f33c}",
        // the ASCII neighbours of the specials and other punctuation
        "!", "#", "$", "%", "(", ")", "=", "?", ";", ":", "/", "\\", "`", "~", "|", "{", "}", "[", "]", "@", "^", "_", "-", "+", "*", ",", ".",
        "href=\"#\">", "a=<b?>", "x&#y;", "\u{1}\u{7f}"];
    for _ in 0..args.n {
        let np = r.below(6);
        let mut pieces = Vec::new();
        for _ in 0..np {
            let mut p = String::new();
            let k = if r.chance(1, 20) { r.range(50, 400) } else { r.below(6) };
            for _ in 0..k {
                p.push_str(*r.pick(&pool));
            }
            pieces.push(p);
        }
        let ns = r.below(12);
        let mut sched = Vec::new();
        for _ in 0..ns {
            sched.push(match r.below(12) {
                0 => Resp::Zero,
                1 => Resp::Fail,
                2 | 3 => Resp::Interrupted,
                4 => Resp::Accept(1 << 20),
                _ => Resp::Accept(r.range(1, 9)),
            });
        }
        if let Some(p) = sched.iter().position(|x| *x == Resp::Fail) {
            sched.truncate(p + 1);
        }
        let mode = *r.pick(&["esc", "esc", "esc", "raw", "buf", "bufbuf"]);
        out.push(Case { mode, pieces, sched });
    }
    out
}

pub fn run(args: &crate::Args) {
    let cases = gen_cases(args);
    let dir = &args.out;
    let mut req = io::BufWriter::new(std::fs::File::create(format!("{dir}/req.txt")).unwrap());
    let mut imp = io::BufWriter::new(std::fs::File::create(format!("{dir}/impl.txt")).unwrap());
    let mut orc = io::BufWriter::new(std::fs::File::create(format!("{dir}/oracle.jsonl")).unwrap());
    let mut stats = Counter::new();
    let mut distinct = std::collections::HashSet::new();
    for (i, c) in cases.iter().enumerate() {
        let ph = if c.pieces.is_empty() {
            "-".to_string()
        } else {
            c.pieces.iter().map(|p| if p.is_empty() { "e".to_string() } else { hex(p.as_bytes()) }).collect::<Vec<_>>().join(",")
        };
        let ss = sched_str(&c.sched);
        writeln!(req, "html {} {} {}", c.mode, ph, ss).unwrap();
        stats.hit(&format!("mode.{}", c.mode));
        let text: String = c.pieces.concat();
        let faulty = c.sched.iter().any(|r| matches!(r, Resp::Fail | Resp::Zero));
        stats.hit(if faulty { "sched.faulty" } else { "sched.benign" });
        stats.hit(&format!("pieces.{}", c.pieces.len().min(5)));
        if text.bytes().any(|b| b"<>&\"'".contains(&b)) {
            stats.hit("text.has_special");
            distinct.insert((c.mode, text.clone()));
        }
        // a rendering that fails part-way (a user ToHtml impl that reports an error after writing something)
        // happens between the others, on the same thread: it must return the error and must not leave anything
        // behind that shows up in a later buffer.  (A Display impl that returns Err on its own breaks the fmt
        // contract — std's write_fmt panics on it — so that is not exercised.)
        if i % 7 == 3 {
            stats.hit("failing_renderings");
            if BadItem.to_buffer().is_ok() {
                writeln!(orc, "{{\"tags\":[\"C06\",\"C14\"],\"kind\":\"failed-rendering-reported-ok\",\"case\":{i},\"detail\":\"to_buffer() of a value whose to_html fails returned Ok\"}}").unwrap();
            }
        }
        if i % 11 == 5 {
            // a value is formatted exactly once per rendering (its Display impl may be expensive, or not repeatable)
            let p = Pieces(c.pieces.clone(), (i % 4) as u8);
            let counted = Counted(&p, std::cell::Cell::new(0));
            let _ = counted.to_buffer();
            let n_buf = counted.1.replace(0);
            let _ = Html(&counted).to_buffer();
            let n_raw = counted.1.replace(0);
            let _ = counted.to_html(&mut Vec::new());
            let n_html = counted.1.get();
            stats.hit("render_count_checked");
            if (n_buf, n_raw, n_html) != (1, 1, 1) {
                writeln!(orc, "{{\"tags\":[\"C06\",\"C02\"],\"kind\":\"rendered-more-than-once\",\"case\":{i},\"detail\":{}}}", jstr(&format!("Display::fmt ran {n_buf} times for to_buffer(), {n_raw} times for Html(..).to_buffer(), {n_html} times for to_html(): a value is formatted once per rendering"))).unwrap();
            }
        }
        let mut sink = Sink::new(c.sched.clone());
        let val = Pieces(c.pieces.clone(), (i % 4) as u8);
        let mut eq_ok = true;
        let res: io::Result<()> = match c.mode {
            "esc" => val.to_html(&mut sink),
            "raw" => Html(&val).to_html(&mut sink),
            "buf" => val.to_buffer().and_then(|b| {
                let want = escape_ref(text.as_bytes());
                eq_ok &= b == &want[..] && b.as_ref() == &want[..];
                if let Ok(s) = std::str::from_utf8(&want) {
                    eq_ok &= b == s;
                }
                // a different byte string must not compare equal
                let mut other = want.clone();
                other.push(b'x');
                eq_ok &= !(b == &other[..]);
                b.to_html(&mut sink)
            }),
            _ => val.to_buffer().and_then(|b| b.to_buffer()).and_then(|b2| {
                let want = escape_ref(text.as_bytes());
                eq_ok &= b2 == &want[..];
                b2.to_html(&mut sink)
            }),
        };
        writeln!(imp, "{} {}", if res.is_ok() { "ok" } else { "err" }, hex(&sink.got)).unwrap();
        // oracles on the implementation alone
        let want: Vec<u8> = if c.mode == "raw" { text.as_bytes().to_vec() } else { escape_ref(text.as_bytes()) };
        let mut fail = |tags: &str, kind: &str, detail: String| {
            writeln!(
                orc,
                "{{\"tags\":{tags},\"kind\":{},\"case\":{i},\"mode\":{},\"pieces\":{},\"sched\":{},\"detail\":{}}}",
                jstr(kind),
                jstr(c.mode),
                jstr(&format!("{:?}", c.pieces)),
                jstr(&ss),
                jstr(&detail)
            )
            .unwrap();
        };
        let tag = if c.mode == "esc" { "[\"C02\",\"C14\"]" } else { "[\"C06\",\"C14\"]" };
        if !eq_ok {
            fail("[\"C06\"]", "buffer-eq", "HtmlBuffer comparison gave the wrong answer".into());
        }
        if !faulty {
            if res.is_err() {
                fail(tag, "benign-sink-error", format!("result {res:?} although the sink never failed"));
            }
            if sink.got != want {
                fail(tag, "wrong-bytes", format!("sink got {:?}, expected {:?}", String::from_utf8_lossy(&sink.got), String::from_utf8_lossy(&want)));
            } else if c.mode != "raw" && unescape_ref(&sink.got).as_deref() != Some(text.as_bytes()) {
                fail(tag, "not-decodable", format!("HTML-decoding {:?} does not give back the text", String::from_utf8_lossy(&sink.got)));
            }
        } else {
            if !want.starts_with(&sink.got) {
                fail(tag, "not-a-prefix", format!("sink got {:?}, not a prefix of {:?}", String::from_utf8_lossy(&sink.got), String::from_utf8_lossy(&want)));
            }
            if res.is_ok() && sink.got != want {
                fail(tag, "ok-but-incomplete", "Ok(()) returned but output incomplete".into());
            }
            if sink.calls_after_fail > 0 {
                fail("[\"C14\"]", "write-after-failure", format!("{} write calls after the sink failed", sink.calls_after_fail));
            }
        }
    }
    stats.add("cases", cases.len() as u64);
    stats.add("distinct.special_texts", distinct.len() as u64);
    std::fs::write(format!("{dir}/stats.json"), stats.json()).unwrap();
}
