//! Suite `sass` (feature `sass`): `static_name("file.ext")` inside `add_sass_file` against the
//! files added before; the compiled CSS as a static of its own.
use crate::util::*;
use std::io::Write;
use std::path::PathBuf;

#[cfg(not(feature = "sass"))]
pub fn run(_args: &crate::Args) {
    eprintln!("the sass suite needs the harness built with --features sass");
    std::process::exit(2);
}

#[cfg(feature = "sass")]
pub fn run(args: &crate::Args) {
    let names: &[&str] = &[
        "style.css", "app.js", "a-b.css", "a_b.css", "a.b.css", "17.css", "9lives.jpeg", "a b.css", "x+y.svg", "logo.png", "sty-le.min.css",
        "_under.css", "Z9.z9", "tr\u{e9}s.css", "dollar$.css", "at@sign.css", "100%.css", "a,b.css", "(p).css", "t~.css", "ex!.css",
        "eq=.css", "amp&.css", "q?.css", "col:on.css", "semi;colon.css", "hash#tag.css", "A.css", "a.CSS", "007.txt",
        // names that differ only in letter case are different files
        "Logo.png", "LOGO.PNG", "Style.css", "STYLE.CSS", "App.JS", "a.css",
    ];
    let dir = &args.out;
    let mut req = std::io::BufWriter::new(std::fs::File::create(format!("{dir}/req.txt")).unwrap());
    let mut imp = std::io::BufWriter::new(std::fs::File::create(format!("{dir}/impl.txt")).unwrap());
    let mut orc = std::io::BufWriter::new(std::fs::File::create(format!("{dir}/oracle.jsonl")).unwrap());
    let mut stats = Counter::new();
    let mut r = Rng::new(args.seed, "sass");
    let mut distinct = std::collections::BTreeSet::new();
    for case in 0..args.n {
        let root = PathBuf::from(format!("/dev/shm/ructe-verif-sass.{}.{case}", std::process::id()));
        let _ = std::fs::remove_dir_all(&root);
        std::fs::create_dir_all(root.join("in/static")).unwrap();
        std::fs::create_dir_all(root.join("out")).unwrap();
        std::env::set_var("CARGO_MANIFEST_DIR", root.join("in"));
        let mut members: Vec<&str> = Vec::new();
        for _ in 0..r.range(1, 6) {
            let n = *r.pick(names);
            if !members.contains(&n) {
                members.push(n);
            }
        }
        // every identifier -> URL name observed in get_names() during the current build
        let mut all_added: std::collections::BTreeMap<String, String> = std::collections::BTreeMap::new();
        // a second build into the same OUT_DIR (what cargo does): same members, same stylesheets, new contents —
        // nothing remembered from the first build may leak into the second
        let npass = if case % 2 == 0 { 2 } else { 1 };
        for pass in 0..npass {
        all_added.clear();
        stats.hit(if pass == 0 { "builds.first" } else { "builds.second_into_same_out_dir" });
        let mut ructe = ructe::Ructe::new(root.join("out")).unwrap();
        {
            let mut st = ructe.statics().unwrap();
            // the name each member is referenced by: the file name for the hashed entry points, the
            // URL name for add_file_as
            let mut refs: Vec<String> = Vec::new();
            for (i, m) in members.iter().enumerate() {
                let content = format!("content of {m} #{i} {}", r.next());
                match i % 3 {
                    0 => {
                        std::fs::write(root.join("in/static").join(m), &content).unwrap();
                        st.add_file(format!("static/{m}")).unwrap();
                        refs.push(m.to_string());
                    }
                    1 => {
                        st.add_file_data(format!("gen/{m}"), content.as_bytes()).unwrap();
                        refs.push(m.to_string());
                    }
                    _ => {
                        std::fs::write(root.join("in/static").join(m), &content).unwrap();
                        let url = format!("to/{m}");
                        st.add_file_as(format!("static/{m}"), &url).unwrap();
                        refs.push(url);
                    }
                }
            }
            // files published without an extension under names that are Rust keywords or clash with generated items
            if r.chance(1, 3) {
                let kw = *r.pick(&["type", "static", "mod", "self", "match", "fn", "crate"]);
                std::fs::write(root.join("in/static").join(format!("kw{pass}")), format!("keyword {kw} {}", r.next())).unwrap();
                st.add_file_as(format!("static/kw{pass}"), kw).unwrap();
                refs.push(kw.to_string());
            }
            let members: Vec<String> = refs.clone();
            // queries: every member, and a few non-members
            let mut queries: Vec<String> = members.clone();
            for _ in 0..2 {
                let n = *r.pick(names);
                if !members.iter().any(|m| m == n) {
                    queries.push(n.to_string());
                }
            }
            queries.push("missing.css".into());
            // a member's name in another letter case, with one more / one less character: never added
            if let Some(m) = members.first().cloned() {
                let shorter: String = { let n = m.chars().count(); m.chars().take(n.saturating_sub(1).max(1)).collect() };
                for v in [m.to_uppercase(), m.to_lowercase(), format!("{m}x"), shorter] {
                    if !members.iter().any(|x| *x == v) && !v.is_empty() {
                        queries.push(v);
                    }
                }
            }
            // the CSS compiled from an earlier sass file is a static like any other (`<stem>.css`): later sass
            // files refer to it, directly after it was compiled and after other additions
            queries.push("@prev".into());
            let at = r.below(queries.len());
            queries.insert(at, "@prev".into());
            queries.push("@first".into());
            let mut compiled: Vec<String> = Vec::new();
            for (qi, q) in queries.iter().enumerate() {
                let q: &String = &match q.as_str() {
                    "@prev" => compiled.last().cloned().unwrap_or_else(|| "q99.css".into()),
                    "@first" => compiled.first().cloned().unwrap_or_else(|| "q98.css".into()),
                    _ => q.clone(),
                };
                let members_owned: Vec<String> = members.iter().chain(compiled.iter()).cloned().collect();
                let members_now: Vec<&str> = members_owned.iter().map(|s| s.as_str()).collect();
                let members = &members_now;
                let before: Vec<(String, String)> = st.get_names().iter().map(|(a, b)| (a.clone(), b.clone())).collect();
                let stem = format!("q{qi}");
                // the call as written in the stylesheet itself, in a partial the stylesheet imports (the top-level file
                // then does not mention the function at all), or in the dash spelling Sass treats as the same name
                let scss = match r.below(4) {
                    0 | 1 => {
                        stats.hit("form.direct");
                        format!("a{{b:static_name(\"{q}\")}}\n")
                    }
                    2 => {
                        stats.hit("form.imported-partial");
                        std::fs::write(root.join("in").join(format!("_part{qi}.scss")), format!("a{{b:static_name(\"{q}\")}}\n")).unwrap();
                        format!("@import \"part{qi}\";\n")
                    }
                    _ => {
                        stats.hit("form.dash-spelling");
                        format!("a{{b:static-name(\"{q}\")}}\n")
                    }
                };
                std::fs::write(root.join("in").join(format!("{stem}.scss")), &scss).unwrap();
                let res = st.add_sass_file(format!("{stem}.scss")).map(|_| ());
                let after: Vec<(String, String)> = st.get_names().iter().map(|(a, b)| (a.clone(), b.clone())).collect();
                for (a, b) in before.iter().chain(after.iter()) {
                    all_added.insert(a.clone(), b.clone());
                }
                let is_member = members.contains(&q.as_str());
                stats.hit(if is_member { "query.member" } else { "query.nonmember" });
                distinct.insert(q.clone());
                let names_s = before.iter().map(|(a, b)| format!("{}={}", hex(a.as_bytes()), hex(b.as_bytes()))).collect::<Vec<_>>().join(",");
                let aln: String = {
                    let mut v: Vec<u32> = names.iter().flat_map(|n| n.chars()).filter(|c| !c.is_ascii() && c.is_alphanumeric()).map(|c| c as u32).collect();
                    v.sort_unstable();
                    v.dedup();
                    if v.is_empty() { "-".into() } else { v.iter().map(|c| format!("{c:x}")).collect::<Vec<_>>().join(",") }
                };
                writeln!(req, "sassname {} {} {}", aln, if names_s.is_empty() { "-".to_string() } else { names_s }, hex(q.as_bytes())).unwrap();
                // what the implementation answered: the URL inside the compiled CSS, or a build error
                let css_ident = format!("{stem}_css");
                let new_css = after.iter().find(|(a, _)| a == &css_ident).cloned();
                let mut fail = |kind: &str, detail: String| {
                    writeln!(
                        orc,
                        "{{\"tags\":[\"C20\",\"C16\"],\"kind\":{},\"case\":{case},\"members\":{},\"query\":{},\"detail\":{}}}",
                        jstr(kind),
                        jstr(&format!("{members:?}")),
                        jstr(q),
                        jstr(&detail)
                    )
                    .unwrap();
                };
                if res.is_ok() && new_css.is_some() {
                    compiled.push(format!("{stem}.css"));
                }
                // get_names() maps every file added so far, whatever happened since: a stylesheet that fails to
                // compile (a reference to a file that was not added) takes nothing away
                for (k, v) in &before {
                    if !after.iter().any(|(a, b)| a == k && b == v) {
                        fail(
                            "names-lost",
                            format!("after add_sass_file ({}) get_names() no longer maps {k} to {v}", if res.is_ok() { "Ok" } else { "Err" }),
                        );
                        break;
                    }
                }
                match (&res, &new_css) {
                    (Ok(()), Some((_, css_url))) => {
                        // the CSS text is embedded in statics.rs only at drop time; recompute it from the
                        // published name: its hash part must be the slug of `a{b:"<url>"}\n`
                        let want_url = before.iter().find(|(a, _)| {
                            // independent re-statement of the identifier rule
                            let mut m: String = q.chars().map(|c| if c.is_alphanumeric() { c } else { '_' }).collect();
                            if m.chars().next().map_or(true, |c| c.is_ascii_digit()) {
                                m.insert(0, 'n');
                            }
                            a == &m
                        });
                        // find which URL the CSS holds by matching the slug against every candidate
                        let mut found: Option<String> = None;
                        for (_, u) in &before {
                            // rsass marks non-ASCII output with a BOM (compressed) or @charset
                            for prefix in ["", "\u{feff}", "@charset \"UTF-8\";"] {
                                let css = format!("{prefix}a{{b:\"{u}\"}}\n");
                                let slug = ructe::verif_hooks::checksum_slug(css.as_bytes());
                                if css_url == &format!("{stem}-{slug}.css") {
                                    found = Some(u.clone());
                                }
                            }
                        }
                        match &found {
                            Some(u) => writeln!(imp, "some {}", hex(u.as_bytes())).unwrap(),
                            None => writeln!(imp, "weird {}", hex(css_url.as_bytes())).unwrap(),
                        }
                        if !is_member {
                            let ident = |n: &str| -> String {
                                let mut m: String = n.chars().map(|c| if c.is_alphanumeric() { c } else { '_' }).collect();
                                if m.chars().next().map_or(true, |c| c.is_ascii_digit()) {
                                    m.insert(0, 'n');
                                }
                                m
                            };
                            let collides = members.iter().any(|m| ident(m) == ident(q));
                            fail(
                                "nonmember-resolved",
                                format!("static_name({q:?}) was not added but resolved to {found:?} (a silently wrong URL{})", if collides { "; the name shares its Rust identifier with a file that was added" } else { "" }),
                            );
                        } else if found.as_ref() != want_url.map(|(_, u)| u) {
                            fail("wrong-url", format!("static_name({q:?}) gave {found:?}, published name is {:?}", want_url.map(|(_, u)| u)));
                        }
                        if found.is_none() {
                            fail("css-name", format!("compiled CSS was published as {css_url:?}, which is not <stem>-<hash of the CSS>.css for any resolved URL"));
                        }
                    }
                    (Err(e), _) => {
                        writeln!(imp, "none").unwrap();
                        // two added files with one Rust identifier (`a b.css`, `a.b.css`): the later one replaces the
                        // earlier in get_names() and the generated module cannot compile (duplicate static) — asking
                        // for the replaced one is an error, not a silently wrong URL
                        let ident = |n: &str| -> String {
                            let mut m: String = n.chars().map(|c| if c.is_alphanumeric() { c } else { '_' }).collect();
                            if m.chars().next().map_or(true, |c| c.is_ascii_digit()) {
                                m.insert(0, 'n');
                            }
                            m
                        };
                        let twin = members.iter().any(|m| *m != q.as_str() && ident(m) == ident(q));
                        if twin {
                            stats.hit("query.member_replaced_by_identifier_twin");
                        }
                        if is_member && !twin {
                            fail("member-not-found", format!("static_name({q:?}) failed although the file was added before: {e:?}"));
                        }
                    }
                    (Ok(()), None) => {
                        writeln!(imp, "weird -").unwrap();
                        fail("css-not-added", format!("add_sass_file succeeded but no static {css_ident} was added"));
                    }
                }
            }
        }
        drop(ructe);
        // C09: STATICS lists every file that was added (whatever happened in between, failing stylesheets included)
        let statics_rs = std::fs::read_to_string(root.join("out/templates/statics.rs")).unwrap_or_default();
        let line = statics_rs.lines().find(|l| l.starts_with("pub static STATICS")).unwrap_or("");
        let listed: std::collections::BTreeSet<&str> = line.split(|c: char| c == '[' || c == ']' || c == ',').map(|x| x.trim().trim_start_matches('&')).collect();
        for (ident, url) in &all_added {
            stats.hit("statics.listed_checked");
            if !listed.contains(ident.as_str()) {
                writeln!(
                    orc,
                    "{{\"tags\":[\"C09\",\"C16\"],\"kind\":\"added-but-not-in-STATICS\",\"case\":{case},\"detail\":{}}}",
                    jstr(&format!("{ident} (published as {url}) was in get_names() during the build but STATICS does not list it: {line}"))
                )
                .unwrap();
                break;
            }
        }
        }
        let _ = std::fs::remove_dir_all(&root);
    }
    stats.add("cases", args.n as u64);
    stats.add("distinct.queried_names", distinct.len() as u64);
    std::fs::write(format!("{dir}/stats.json"), stats.json()).unwrap();
}
