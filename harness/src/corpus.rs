//! Regression corpus: minimised past failures, one hex-encoded case per line, run first.
pub fn load(suite: &str) -> Vec<Vec<u8>> {
    let root = std::env::var("VERIF_ROOT").unwrap_or_else(|_| "/verif".into());
    let path = format!("{root}/corpus/{suite}.txt");
    let Ok(text) = std::fs::read_to_string(path) else { return vec![] };
    text.lines()
        .map(|l| l.trim())
        .filter(|l| !l.is_empty() && !l.starts_with('#'))
        .map(|l| crate::util::unhex(l.split_whitespace().next().unwrap_or("-")))
        .collect()
}
