//! Suite `mime`: `mime_arg` for every suffix of interest x case variants, under the MIME
//! feature this binary was built with.
use crate::util::*;
use std::io::Write;

pub fn run(args: &crate::Args) {
    let dir = &args.out;
    let feat = crate::script::feature_name();
    let base: &[&str] = &[
        "css", "js", "json", "png", "jpg", "jpeg", "gif", "bmp", "svg", "woff", "woff2", "ico", "html", "htm", "txt", "wasm", "xml", "jsonp",
        "", "bin", "exe", "cs", "csss", "j", "jp", "jpe", "wof", "woff3", "htmlx", "x", "tar.gz", "7z", "mp4", "pdf", "md", "rs", " css", "css ",
        "c\u{301}ss", "\u{e9}", "JS\u{131}",
    ];
    // every suffix the source lists (string literals on `=>` lines of staticfiles.rs), so that the suite follows the tables
    let mut known: Vec<String> = base.iter().take(18).map(|s| s.to_string()).collect();
    let repo = std::env::var("VERIF_REPO").unwrap_or_else(|_| "/repo".into());
    if let Ok(text) = std::fs::read_to_string(format!("{repo}/src/staticfiles.rs")) {
        for line in text.lines().filter(|l| l.contains("=>")) {
            for (i, part) in line.split('"').enumerate() {
                if i % 2 == 1 && !part.is_empty() && part.len() <= 10 && part.bytes().all(|b| b.is_ascii_lowercase() || b.is_ascii_digit()) {
                    known.push(part.to_string());
                }
            }
        }
    }
    known.sort();
    known.dedup();
    // neighbours of every listed suffix: extensions, truncations, prefixed forms, doubled — all "unknown" unless listed themselves
    let mut derived: Vec<String> = Vec::new();
    for k in &known {
        for tail in ["x", "2", "_", "-", ".", "~", "old", "-bak", "_orig", "path", "patch", "z", "0"] {
            derived.push(format!("{k}{tail}"));
        }
        for head in ["x", ".", "_", "a"] {
            derived.push(format!("{head}{k}"));
        }
        for cut in 1..k.len() {
            derived.push(k[..cut].to_string());
            derived.push(k[cut..].to_string());
        }
        derived.push(format!("{k}{k}"));
        derived.push(format!("{k}.{k}"));
        // letters replaced by characters that only *upper*-casing (or another folding than `to_lowercase`) maps onto
        // them: long s, sharp s, dotless i, the ff ligature, the Kelvin sign, full-width letters — other suffixes
        for (from, to) in [("s", "\u{17f}"), ("ss", "\u{df}"), ("i", "\u{131}"), ("ff", "\u{fb00}"), ("k", "\u{212a}"), ("c", "\u{ff43}"), ("j", "\u{ff2a}"), ("I", "\u{130}")] {
            if k.contains(from) {
                derived.push(k.replacen(from, to, 1));
                derived.push(k.replace(from, to));
            }
        }
    }
    let mut cases: Vec<String> = Vec::new();
    for b in base.iter().map(|s| s.to_string()).chain(known.iter().cloned()).chain(derived.into_iter()) {
        let b = &b;
        cases.push(b.to_string());
        cases.push(b.to_uppercase());
        // alternating case and first-letter upper case
        let alt: String = b.chars().enumerate().map(|(i, c)| if i % 2 == 0 { c.to_ascii_uppercase() } else { c }).collect();
        cases.push(alt);
        let mut cap = b.to_string();
        if let Some(f) = cap.get_mut(0..1) {
            f.make_ascii_uppercase();
        }
        cases.push(cap);
    }
    cases.sort();
    cases.dedup();
    let mut req = std::io::BufWriter::new(std::fs::File::create(format!("{dir}/req.txt")).unwrap());
    let mut imp = std::io::BufWriter::new(std::fs::File::create(format!("{dir}/impl.txt")).unwrap());
    std::fs::File::create(format!("{dir}/oracle.jsonl")).unwrap();
    let mut stats = Counter::new();
    for c in &cases {
        writeln!(req, "mimearg {} {}", feat, hex(c.as_bytes())).unwrap();
        writeln!(imp, "{}", hex(ructe::verif_hooks::mime_arg(c).as_bytes())).unwrap();
        stats.hit("suffixes");
    }
    stats.add("cases", cases.len() as u64);
    stats.add("distinct.suffixes", cases.len() as u64);
    std::fs::write(format!("{dir}/stats.json"), stats.json()).unwrap();
}
