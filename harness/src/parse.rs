//! Suite `parse`: template bytes → generated code / diagnostics / syntax tree, through the
//! hook module of the real crate, plus the oracles that can be evaluated on the
//! implementation alone (no panic, well-formed diagnostics, intended syntax tree,
//! layout-independence).
use crate::gen::{self, Layout};
use crate::util::*;
use std::io::Write;

pub struct Case {
    pub kind: &'static str,
    pub src: Vec<u8>,
    pub intended: Option<String>,
    /// index of the canonical member of a metamorphic pair
    pub pair_of: Option<usize>,
    /// declaration of a `decl` case: use lines, lifetime list, (name, separator, type)
    pub decl: Option<Decl>,
}

pub struct Decl {
    pub uses: Vec<String>,
    pub lifetimes: Vec<String>,
    pub params: Vec<(String, String, String)>,
}

fn strip_ws(s: &str) -> String {
    s.chars().filter(|c| !c.is_whitespace()).collect()
}

/// C13 on the implementation alone: sink first, then exactly the declared parameters in
/// order with their declared types (white space is not compared), only `Content` turned into a
/// block parameter, every use line present. Deliberately loose about formatting.
pub fn check_header(code: &str, d: &Decl) -> Result<(), String> {
    let end = code.find("where W: Write").ok_or("no `where W: Write` in generated code")?;
    let head = strip_ws(&code[..end]);
    let pos = std::cell::Cell::new(0usize);
    let expect = |needle: String, what: &str| -> Result<(), String> {
        match head[pos.get()..].find(&needle) {
            Some(i) => {
                pos.set(pos.get() + i + needle.len());
                Ok(())
            }
            None => Err(format!("{what}: `{needle}` not found (in order) in the generated signature")),
        }
    };
    for u in &d.uses {
        expect(format!("{};", strip_ws(u)), "use line")?;
    }
    expect("pubfnt_html<".to_string(), "function")?;
    // the generic parameter list is exactly the declared lifetimes, in order, followed by the sink type
    let generics: String = d.lifetimes.iter().map(|l| format!("{l},")).collect::<String>() + "W>(";
    if !head[pos.get()..].starts_with(&generics) {
        let got = &head[pos.get()..];
        return Err(format!("generic parameter list: expected `<{generics}` (the declared lifetimes verbatim, then the sink type), found `<{}`", &got[..got.find(">(").map_or(got.len().min(60), |i| i + 2)]));
    }
    pos.set(pos.get() + generics.len());
    expect("mut_ructe_out_:W,".to_string(), "sink parameter first")?;
    for (n, _sep, ty) in &d.params {
        if ty == "Content" {
            expect(format!("{n}:implFnOnce(&mutW)"), "Content parameter as block parameter")?;
            expect(",".to_string(), "parameter separator")?;
        } else {
            expect(format!("{n}:{},", strip_ws(ty)), "parameter with its declared type")?;
        }
    }
    // the names as whole tokens (white space is not compared above, so `mut ex: T` would pass for `mutex: T`)
    let raw = &code[..end];
    for (n, _sep, _ty) in &d.params {
        let ok = raw.match_indices(n.as_str()).any(|(i, _)| {
            let before = raw[..i].chars().next_back();
            let after = raw[i + n.len()..].trim_start();
            !before.map_or(false, |c| c.is_alphanumeric() || c == '_') && after.starts_with(':')
        });
        if !ok {
            return Err(format!("parameter `{n}` does not occur as a name of its own (a whole token followed by `:`) in the generated signature"));
        }
    }
    // exactly the declared parameters: nothing but the return type may follow
    let tail = &head[pos.get()..];
    if !tail.starts_with(")->io::Result<()>") {
        return Err(format!("unexpected text after the last declared parameter: `{}`", &tail[..tail.len().min(60)]));
    }
    Ok(())
}

pub fn cases(mix: &str, n: usize, seed: u64) -> Vec<Case> {
    let mut out = Vec::new();
    let examples = gen::example_templates();
    let ex_bytes: Vec<Vec<u8>> = examples.iter().map(|e| e.1.clone()).collect();
    let mut corpus = crate::corpus::load("parse");
    for c in corpus.drain(..) {
        out.push(Case { kind: "corpus", src: c, intended: None, pair_of: None, decl: None });
    }
    if let Some(path) = mix.strip_prefix("file:") {
        // replay: one hex-encoded source per line
        let text = std::fs::read_to_string(path).unwrap_or_default();
        return text
            .lines()
            .filter(|l| !l.trim().is_empty())
            .map(|l| Case { kind: "replay", src: unhex(l.trim()), intended: None, pair_of: None, decl: None })
            .collect();
    }
    if let Some(path) = mix.strip_prefix("srcgen:") {
        // well-formed source templates generated from the Lean definitions (the domain of the completeness
        // theorems): `<hex source> <hex of the intended tree's dump>` per line
        let text = std::fs::read_to_string(path).unwrap_or_default();
        return text
            .lines()
            .filter(|l| !l.trim().is_empty() && !l.starts_with('#') && !l.starts_with('!'))
            .filter_map(|l| {
                let mut it = l.split_whitespace();
                let src = unhex(it.next()?);
                let want = String::from_utf8(unhex(it.next()?)).ok()?;
                Some(Case { kind: "srcgen", src, intended: Some(format!("ok {want}")), pair_of: None, decl: None })
            })
            .collect();
    }
    let want = |k: &str| mix == "all" || mix.split(',').any(|m| m == k);
    if want("examples") {
        for (_, b) in &examples {
            out.push(Case { kind: "example", src: b.clone(), intended: None, pair_of: None, decl: None });
        }
    }
    if want("mutate") {
        let mut r = Rng::new(seed, "mutate");
        for _ in 0..n {
            let base = r.pick(&ex_bytes).clone();
            out.push(Case { kind: "mutate", src: gen::mutate(&mut r, &base, &ex_bytes), intended: None, pair_of: None, decl: None });
        }
    }
    if want("tokens") {
        let mut r = Rng::new(seed, "tokens");
        let headers: &[&[u8]] = &[b"@()\n", b"@(a: T)", b"", b"@use x;\n@()"];
        for _ in 0..n {
            let mut s = r.pick(headers).to_vec();
            s.extend(gen::token_string(&mut r, 9));
            out.push(Case { kind: "tokens", src: s, intended: None, pair_of: None, decl: None });
        }
    }
    if want("exhaustive") {
        // all token strings up to a length bound behind a valid header
        let maxlen = if n >= 100_000 { 4 } else { 3 };
        for len in 0..=maxlen {
            let total = (gen::TOKENS.len() as u64).pow(len as u32);
            for i in 0..total {
                let mut s = b"@()\n".to_vec();
                s.extend(gen::nth_token_string(i, len, gen::TOKENS));
                out.push(Case { kind: "exhaustive", src: s, intended: None, pair_of: None, decl: None });
            }
        }
    }
    if want("structured") {
        let mut r = Rng::new(seed, "structured");
        for _ in 0..n {
            let t = gen::rand_tpl(&mut r, 3);
            let canon = gen::print_tpl(&t, &mut Layout::Canonical);
            let intended = gen::intended_dump(&t);
            let idx = out.len();
            out.push(Case { kind: "structured", src: canon, intended: Some(intended.clone()), pair_of: None, decl: None });
            for _ in 0..2 {
                let pert = gen::print_tpl(&t, &mut Layout::Random(&mut r));
                out.push(Case { kind: "layout", src: pert, intended: Some(intended.clone()), pair_of: Some(idx), decl: None });
            }
        }
    }
    if want("nesting") {
        // long lines: a rejected template whose error sits at a column around and beyond 2^16 (line lengths are
        // not bounded by the property: minified markup, data URIs), in text, inside a comment, in the declaration
        for len in [250usize, 65_530, 65_535, 65_536, 65_540, 70_000, 131_073] {
            for tail in ["@if x {", "@(", "@for a b {}", "@* open", "@:c({"] {
                let mut s = b"@()\n".to_vec();
                s.extend(std::iter::repeat(b'a').take(len));
                s.extend(tail.as_bytes());
                out.push(Case { kind: "longline", src: s, intended: None, pair_of: None, decl: None });
            }
            let mut s = b"@(a: &str, ".to_vec();
            s.extend(std::iter::repeat(b' ').take(len));
            s.extend(b"b: %)\nx\n");
            out.push(Case { kind: "longline", src: s, intended: None, pair_of: None, decl: None });
            let mut s = b"@()\n".to_vec();
            s.extend("\u{e9}".repeat(len / 2).as_bytes());
            s.extend(b"@if {");
            out.push(Case { kind: "longline", src: s, intended: None, pair_of: None, decl: None });
        }
        for depth in [1usize, 2, 5, 10, 25, 50, 75, 100] {
            for (open, close) in [("(", ")"), ("[", "]"), ("{", "}")] {
                for closed in [true, false] {
                    let mut s = b"@()\n@f".to_vec();
                    let o = if open == "{" { "(" } else { open };
                    let _ = o;
                    s.extend(open.repeat(depth).as_bytes());
                    if closed {
                        s.extend(close.repeat(depth).as_bytes());
                    }
                    out.push(Case { kind: "nesting", src: s, intended: None, pair_of: None, decl: None });
                }
            }
            // nesting inside the declaration (type position), closed / unclosed / with a stray byte innermost
            for (open, close) in [("[", "]"), ("(", ")"), ("Vec<", ">"), ("&[", "]"), ("(A, [", "])")] {
                for inner in ["u8", "", "u8 %", "u8;", "'a"] {
                    for closed in [true, false] {
                        let mut s = b"@(a: ".to_vec();
                        s.extend(open.repeat(depth).as_bytes());
                        s.extend(inner.as_bytes());
                        if closed {
                            s.extend(close.repeat(depth).as_bytes());
                        }
                        s.extend(b")\n<p>@a</p>\n");
                        out.push(Case { kind: "nesting", src: s, intended: None, pair_of: None, decl: None });
                    }
                }
            }
            // nesting inside directive fragments: conditions, loop expressions, match patterns, call arguments
            for (pre, post) in [("@if ", " {x}"), ("@for a in ", " {x}"), ("@match ", " { _ => {x} }"), ("@:c(", ")"), ("@if let Some", " = b {x}"), ("@for ", " in b {x}")] {
                for (open, close) in [("(", ")"), ("[", "]"), ("f(", ")"), ("{", "}"), ("!(", ")"), ("&(", ")"), ("(a, (", "))")] {
                    for closed in [true, false] {
                        let mut s = b"@()\n".to_vec();
                        s.extend(pre.as_bytes());
                        s.extend(open.repeat(depth).as_bytes());
                        s.extend(b"a");
                        if closed {
                            s.extend(close.repeat(depth).as_bytes());
                        }
                        s.extend(post.as_bytes());
                        out.push(Case { kind: "nesting", src: s, intended: None, pair_of: None, decl: None });
                    }
                }
            }
            for closed in [true, false] {
                let mut s = b"@()\n".to_vec();
                for _ in 0..depth {
                    s.extend(b"@if a {x");
                }
                if closed {
                    for _ in 0..depth {
                        s.extend(b"}");
                    }
                }
                out.push(Case { kind: "nesting", src: s, intended: None, pair_of: None, decl: None });
                let mut s = b"@()\n".to_vec();
                for _ in 0..depth {
                    s.extend(b"@:c({");
                }
                if closed {
                    for _ in 0..depth {
                        s.extend(b"})");
                    }
                }
                out.push(Case { kind: "nesting", src: s, intended: None, pair_of: None, decl: None });
                let mut s = b"@()\n".to_vec();
                for _ in 0..depth {
                    s.extend(b"@for a in b {@match c { d => {");
                }
                if closed {
                    for _ in 0..depth {
                        s.extend(b"}}}");
                    }
                }
                out.push(Case { kind: "nesting", src: s, intended: None, pair_of: None, decl: None });
            }
        }
    }
    if want("badutf8") {
        // a stray non-UTF-8 byte (and a lone multi-byte lead) at EVERY position of templates that have
        // comments and layout at every slot the grammar has, including inside conditions
        let bases: &[&str] = &[
            "@* c *@ @use a::b; @* c *@\n@(a: u8, b: &str) @* c *@\n<p>@a @* c *@ text</p>\n",
            "@(a: u8, b: u8)\n@if a == @* c *@ b {same} else @* c *@ if !@* c *@a @* c *@ && @* c *@ b {x} else @* c *@ {y}\n",
            "@(a: bool)\n@if @* c *@ !@* c *@a @* c *@ {no}\n@if let @* c *@ Some(x) @* c *@ = @* c *@ o @* c *@ {@x}\n",
            "@(xs: &[u8])\n@for @* c *@ x @* c *@ in @* c *@ xs @* c *@ {@x,}\n@for (a, b) in ps {@a}\n@for i in 0..n {@i}",
            "@(o: Option<u8>)\n@match @* c *@ o @* c *@ {@* c *@ Some(x) @* c *@ => @* c *@ {@x} @* c *@ None => {-} @* c *@ }\n",
            "@()\n@:base(a, @* c *@ \"s\", {@* c *@<b>x</b>} @* c *@ , {} @* c *@)\n",
            "@()\n@a.b(\"s\", /* c */ [1, 2], {x}).c::<T>()!(y)[0] @(a + /* c */ \"s\") @\"lit\" @@ @{ @}\n",
            "@<'a, 'b>(a: &'a str, b: &'b [u8], c: Vec<(A, B,)>, d: impl X, e: &dyn Y)\ntext\n",
        ];
        for base in bases {
            let b = base.as_bytes();
            for pos in 0..=b.len() {
                for bad in [0xffu8, 0x80, 0xc3] {
                    let mut s = b[..pos].to_vec();
                    s.push(bad);
                    s.extend_from_slice(&b[pos..]);
                    out.push(Case { kind: "badutf8", src: s, intended: None, pair_of: None, decl: None });
                }
            }
        }
    }
    if want("text") {
        // C01: every ASCII code point at the start / middle / end of a run and alone, at every
        // nesting position, directly after the declaration and after other text; each case carries
        // the documented tree (text is itself; only the white space / comment run directly after
        // the declaration is dropped)
        use crate::gen::{Arg, Cond, Else, Node, Pat, Tpl};
        let cond = || Cond::Logic { neg: false, first: "a".into(), rest: vec![] };
        let wrap = |wi: usize, inner: Vec<Node>| -> Vec<Node> {
            match wi {
                0 => inner,
                1 => vec![Node::Text(b"X".to_vec()), Node::If { cond: cond(), body: inner, els: Else::None }],
                2 => vec![Node::Text(b"X".to_vec()), Node::If { cond: cond(), body: vec![Node::Text(b"x".to_vec())], els: Else::Block(inner) }],
                3 => vec![Node::Text(b"X".to_vec()), Node::For { pat: Pat::Name("x".into()), iter: "y".into(), body: inner }],
                4 => vec![Node::Text(b"X".to_vec()), Node::Match { expr: "m".into(), arms: vec![("Some(x)".into(), inner)] }],
                5 => vec![Node::Text(b"X".to_vec()), Node::Call { name: "c".into(), args: vec![Arg::Body(inner)] }],
                _ => vec![Node::Text(b"X".to_vec()), Node::If { cond: cond(), body: vec![Node::For { pat: Pat::Name("b".into()), iter: "c".into(), body: inner }], els: Else::None }],
            }
        };
        let mut push_case = |body: Vec<Node>, out: &mut Vec<Case>| {
            let t = Tpl { uses: vec![], lifetimes: vec![], params: vec![], body };
            let src = crate::gen::print_tpl(&t, &mut Layout::Canonical);
            out.push(Case { kind: "text", src, intended: Some(crate::gen::intended_dump(&t)), pair_of: None, decl: None });
        };
        for b in 0u8..128 {
            if b == b'@' || b == b'{' || b == b'}' {
                continue;
            }
            let ws = b == b' ' || b == b'\t' || b == b'\n' || b == b'\r';
            for wi in 0..7usize {
                for shape in 0..4 {
                    // keep the quick tier small: all shapes at top level, one shape nested
                    if wi > 0 && shape != (b as usize + wi) % 4 {
                        continue;
                    }
                    let t: Vec<u8> = match shape {
                        0 => vec![b],
                        1 => vec![b, b'm', b'n'],
                        2 => vec![b'm', b, b'n'],
                        _ => vec![b'm', b'n', b],
                    };
                    // directly after the declaration a leading white-space run is dropped by design
                    if wi == 0 && ws && shape < 2 {
                        push_case(vec![Node::EscAt, Node::Text(t)], &mut out);
                    } else {
                        push_case(wrap(wi, vec![Node::Text(t)]), &mut out);
                    }
                }
            }
        }
        let mut r = Rng::new(seed, "text");
        for _ in 0..n / 4 {
            let mut inner: Vec<Node> = Vec::new();
            for _ in 0..r.range(1, 4) {
                let node = match r.below(6) {
                    0 => Node::EscAt,
                    1 => Node::EscOpen,
                    2 => Node::EscClose,
                    3 => Node::Comment(r.pick(&[" c ", "*", "**", " * ", "x**", "* *", " \u{e9} ", "{", "@", ""]).as_bytes().to_vec()),
                    _ => {
                        if matches!(inner.last(), Some(Node::Text(_))) {
                            continue;
                        }
                        Node::Text(gen::rand_text(&mut r))
                    }
                };
                inner.push(node);
            }
            let wi = r.below(7);
            let mut body = wrap(wi, inner);
            if wi == 0 {
                // the leading run of white space and comments is dropped by design
                while matches!(body.first(), Some(Node::Comment(_))) {
                    body.remove(0);
                }
                if let Some(Node::Text(t)) = body.first_mut() {
                    if t.first().map_or(false, |c| b" \t\r\n".contains(c)) {
                        t.insert(0, b'x');
                    }
                }
            }
            push_case(body, &mut out);
        }
    }
    if want("decl") {
        let mut r = Rng::new(seed, "decl");
        let tys: &[&str] = &[
            "Content", "ContentType", "Contents", "MyContent", "&Content", "Vec<Content>", "[Content]", "&str", "i32",
            "&'a [T]", "(A, Content)", "impl Content", "dyn Content", "&'a Content", "Option<Content>", "Content<T>",
            // one-element tuples and trailing commas are significant to rustc: `(A,)` is not `(A)`
            "(A,)", "(A, B,)", "Vec<(Foo,)>", "HashMap<K, V,>", "&[(u8,)]", "((A,),)", "Foo<'a, T>", "(Content,)", "&'a (A,)",
        ];
        // (names that begin like a keyword are ordinary names)
        let names: &[&str] = &["a", "_ructe_out_", "W", "out", "Content", "content", "io", "b2", "_", "mutex", "muted", "refs", "selfish", "dynamo", "implicit"];
        let seps: &[&str] = &[": ", ":", " : ", " :", ":  ", ":\n", ":\t"];
        for _ in 0..n / 2 {
            let mut s = Vec::new();
            let mut d = Decl { uses: vec![], lifetimes: vec![], params: vec![] };
            for _ in 0..r.below(4) {
                s.extend(b"@");
                let u = *r.pick(&["use a::b", "use a::{b, c as d}", "use x::*", "use ::std::fmt", "use super::Content", "use a as b", "use super::Html as Markup", "use super::ToHtml as Render", "use super::statics::*", "use super::{a, b}", "use std::fmt::Write as _",
                    // items spelled like the markers a code generator fills in: user text is never a format
                    "use crate::helpers::{name}", "use m::{args}", "use m::{generics}", "use m::{preamble, body}", "use m::{}", "use m::{0}", "use m::{name, args}", "use m::{type_args}"]);
                d.uses.push(u.to_string());
                s.extend(u.as_bytes());
                s.extend(b";");
                s.extend(r.pick(&["\n", "", " ", "\n\n", "@* c *@\n"]).as_bytes());
            }
            s.extend(b"@");
            if r.chance(1, 4) {
                let l = *r.pick(&["<'a>", "<'a, 'b>", "<'a,'b>", "< 'a>"]);
                d.lifetimes = l.trim_matches(|c| c == '<' || c == '>').split(',').map(|x| x.trim().to_string()).collect();
                s.extend(l.as_bytes());
            }
            s.extend(b"(");
            let np = r.below(9);
            for i in 0..np {
                if i > 0 {
                    s.extend(r.pick(&[", ", ",", ",\n  "]).as_bytes());
                }
                let name = format!("{}{i}", r.pick(names));
                let sep = *r.pick(seps);
                let ty = *r.pick(tys);
                s.extend(name.as_bytes());
                s.extend(sep.as_bytes());
                s.extend(ty.as_bytes());
                d.params.push((name, sep.to_string(), ty.to_string()));
            }
            s.extend(r.pick(&[")", " )", ")\n", ")\n\n"]).as_bytes());
            s.extend(b"<p>@a0</p>\n");
            out.push(Case { kind: "decl", src: s, intended: None, pair_of: None, decl: Some(d) });
        }
    }
    out
}

/// The independent well-formedness oracle of C11 for a printed diagnostic.
pub fn check_diag(src: &[u8], text: &str) -> Result<usize, String> {
    const P: &str = "cargo:warning=";
    let lines: Vec<&str> = text.split('\n').collect();
    // the text ends in '\n', so the last element is empty
    if lines.last() != Some(&"") {
        return Err("diagnostic text does not end in a newline".into());
    }
    let lines = &lines[..lines.len() - 1];
    if lines.is_empty() {
        return Err("rejection without any diagnostic".into());
    }
    if lines.len() % 2 != 0 {
        return Err(format!("odd number of diagnostic lines: {}", lines.len()));
    }
    let src_lines: Vec<&[u8]> = src.split(|b| *b == b'\n').collect();
    for pair in lines.chunks(2) {
        let l0 = pair[0].strip_prefix(P).ok_or("missing prefix")?;
        let l1 = pair[1].strip_prefix(P).ok_or("missing prefix")?;
        let colon = l0.find(':').ok_or("no colon after line number")?;
        let num: usize = l0[..colon].trim_start().parse().map_err(|_| format!("bad line number {:?}", &l0[..colon]))?;
        if colon < 4 {
            return Err("line number not padded to 4".into());
        }
        let echoed = &l0[colon + 1..];
        if num < 1 || num > src_lines.len() {
            return Err(format!("line number {num} outside 1..={}", src_lines.len()));
        }
        let actual = src_lines[num - 1];
        let nchars = match std::str::from_utf8(actual) {
            Ok(s) => {
                if echoed != s {
                    return Err(format!("echoed line {echoed:?} is not source line {num} {s:?}"));
                }
                s.chars().count()
            }
            Err(_) => {
                if echoed != "(Failed to display line)" {
                    return Err(format!("line {num} is not UTF-8 but echoed {echoed:?}"));
                }
                String::from_utf8_lossy(actual).chars().count()
            }
        };
        let rest = l1.strip_prefix("     ").ok_or("caret line lacks the 5 space indent")?;
        let caret = rest.find('^').ok_or("no caret")?;
        if !rest[..caret].bytes().all(|b| b == b' ') {
            return Err("non-space before caret".into());
        }
        let col = caret + 1;
        if col > nchars + 1 {
            return Err(format!("caret column {col} beyond line {num} of {nchars} chars"));
        }
        if rest.len() < caret + 3 {
            return Err("no message after caret".into());
        }
    }
    Ok(lines.len() / 2)
}

pub fn run(args: &crate::Args) {
    let mut cases = cases(&args.mix, args.n, args.seed);
    // compilation is a function of the template: cases that carry their documented tree are presented a
    // second time at the end, after everything else (malformed inputs included), and must give the same
    // result — state kept between compilations would show here
    let again: Vec<Case> = cases
        .iter()
        .filter(|c| c.intended.is_some() && c.pair_of.is_none())
        .take(4000)
        .map(|c| Case { kind: c.kind, src: c.src.clone(), intended: c.intended.clone(), pair_of: None, decl: None })
        .collect();
    cases.extend(again);
    let dir = &args.out;
    let mut req = std::io::BufWriter::new(std::fs::File::create(format!("{dir}/req.txt")).unwrap());
    let mut imp = std::io::BufWriter::new(std::fs::File::create(format!("{dir}/impl.txt")).unwrap());
    let mut meta = std::io::BufWriter::new(std::fs::File::create(format!("{dir}/meta.txt")).unwrap());
    let mut orc = std::io::BufWriter::new(std::fs::File::create(format!("{dir}/oracle.jsonl")).unwrap());
    let mut stats = Counter::new();
    let mut codes: Vec<Option<String>> = Vec::with_capacity(cases.len());
    let mut distinct = std::collections::HashSet::new();
    const TIME_LIMIT_S: u64 = 8;
    let mut timed = Timed::new(|src: Vec<u8>| (ructe::verif_hooks::compile("t_html", &src), ructe::verif_hooks::ast_dump(&src)));
    let mut last_timeout_kind = "";
    for (i, c) in cases.iter().enumerate() {
        stats.hit(&format!("kind.{}", c.kind));
        let name = "t_html";
        let esc = uni_esc_set(&c.src);
        writeln!(req, "compile {} {} {}", hex(name.as_bytes()), hex(&c.src), esc).unwrap();
        writeln!(req, "ast {}", hex(&c.src)).unwrap();
        writeln!(meta, "{} {}", c.kind, i).unwrap();
        writeln!(meta, "{} {}", c.kind, i).unwrap();
        let src = c.src.clone();
        // "compilation terminates": a parse of a few hundred bytes that takes longer than the limit is
        // reported as non-termination (ordinary cases take microseconds); after a few of them the
        // remaining cases of the same kind are answered `timeout` without being run
        let r = if timed.timeouts >= 3 && c.kind == last_timeout_kind {
            None
        } else {
            timed.call(src, std::time::Duration::from_secs(TIME_LIMIT_S))
        };
        let Some(r) = r else {
            stats.hit("result.timeout");
            last_timeout_kind = c.kind;
            writeln!(imp, "timeout").unwrap();
            writeln!(imp, "timeout").unwrap();
            writeln!(
                orc,
                "{{\"tags\":[\"C11\"],\"kind\":\"no-termination\",\"case\":{i},\"src_hex\":{},\"src\":{},\"detail\":{}}}",
                jstr(&hex(&c.src)),
                jbytes(&c.src),
                jstr(&format!("compiling these {} bytes did not finish within {TIME_LIMIT_S} s", c.src.len()))
            )
            .unwrap();
            codes.push(None);
            continue;
        };
        let mut code = None;
        match r {
            Err(msg) => {
                stats.hit("result.panic");
                writeln!(imp, "panic").unwrap();
                writeln!(imp, "panic").unwrap();
                writeln!(
                    orc,
                    "{{\"tags\":[\"C11\"],\"kind\":\"panic\",\"case\":{i},\"src_hex\":{},\"src\":{},\"detail\":{}}}",
                    jstr(&hex(&c.src)),
                    jbytes(&c.src),
                    jstr(&msg)
                )
                .unwrap();
            }
            Ok((cr, ast)) => {
                match &cr {
                    Ok(text) => {
                        stats.hit("result.accept");
                        writeln!(imp, "ok {}", hex(text.as_bytes())).unwrap();
                        code = Some(text.clone());
                        if distinct.insert(ast.clone()) {
                            stats.hit("distinct.accepted_ast");
                        }
                    }
                    Err(d) => {
                        stats.hit("result.reject");
                        writeln!(imp, "err {}", hex(d.as_bytes())).unwrap();
                        match check_diag(&c.src, d) {
                            Ok(k) => stats.add("diag.entries", k as u64),
                            Err(why) => {
                                writeln!(
                                    orc,
                                    "{{\"tags\":[\"C11\"],\"kind\":\"diag-malformed\",\"case\":{i},\"src_hex\":{},\"src\":{},\"detail\":{}}}",
                                    jstr(&hex(&c.src)),
                                    jbytes(&c.src),
                                    jstr(&format!("{why}; diagnostic text: {d:?}"))
                                )
                                .unwrap();
                            }
                        }
                    }
                }
                writeln!(imp, "{ast}").unwrap();
                if let Some(d) = &c.decl {
                    stats.hit("header.checked");
                    match &cr {
                        Ok(text) => {
                            if let Err(why) = check_header(text, d) {
                                writeln!(
                                    orc,
                                    "{{\"tags\":[\"C13\"],\"kind\":\"signature\",\"case\":{i},\"src_hex\":{},\"src\":{},\"detail\":{}}}",
                                    jstr(&hex(&c.src)),
                                    jbytes(&c.src),
                                    jstr(&why)
                                )
                                .unwrap();
                            }
                        }
                        Err(_) => {
                            writeln!(
                                orc,
                                "{{\"tags\":[\"C13\"],\"kind\":\"declaration-rejected\",\"case\":{i},\"src_hex\":{},\"src\":{},\"detail\":\"a declaration from the supported grammar was rejected\"}}",
                                jstr(&hex(&c.src)),
                                jbytes(&c.src)
                            )
                            .unwrap();
                        }
                    }
                }
                if let Some(want) = &c.intended {
                    stats.hit("intended.checked");
                    if &ast != want {
                        writeln!(
                            orc,
                            "{{\"tags\":[\"C01\",\"C03\",\"C04\",\"C05\",\"C13\",\"C15\"],\"kind\":\"ast-not-intended\",\"case\":{i},\"src_hex\":{},\"src\":{},\"detail\":{}}}",
                            jstr(&hex(&c.src)),
                            jbytes(&c.src),
                            jstr(&format!("documented tree {want} but parser gave {ast}"))
                        )
                        .unwrap();
                    }
                }
                if let Some(j) = c.pair_of {
                    stats.hit("pairs.checked");
                    if codes[j] != code {
                        writeln!(
                            orc,
                            "{{\"tags\":[\"C15\"],\"kind\":\"layout-changes-code\",\"case\":{i},\"src_hex\":{},\"src\":{},\"detail\":{}}}",
                            jstr(&hex(&c.src)),
                            jbytes(&c.src),
                            jstr(&format!("canonical print {:?} generated different code", String::from_utf8_lossy(&cases[j].src)))
                        )
                        .unwrap();
                    }
                }
            }
        }
        codes.push(code);
    }
    stats.add("cases", cases.len() as u64);
    std::fs::write(format!("{dir}/stats.json"), stats.json()).unwrap();
}
